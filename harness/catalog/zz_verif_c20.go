package catalog

import (
	"regexp"
	"strconv"
	"strings"
	"time"
)

var c20Re = regexp.MustCompile(`^(\d{2,3})-(\d\d)\.(\d{4})([NSEW])$`)

// C20 K1: decToMinDec for every float64 in [-90,90] / [-180,180].
// Under the engine the two float arguments of the final Sprintf are the
// observables (Go's %.Nf is correctly rounded decimal formatting: minutes print
// as 60.0000 exactly when the argument is >= 59.99995); natively the printed
// string itself is parsed and checked.
func H_c20_dec() {
	lat := symInt(0, 1) == 1
	dec := symFloat64()
	lim := 180.0
	if lat {
		lim = 90.0
	}
	symAssume(dec >= -lim && dec <= lim)
	symFmtFloatReset()
	s := decToMinDec(dec, lat)
	abs := dec
	if abs < 0 {
		abs = -abs
	}
	hemi := s[len(s)-1]
	if dec == 0 {
		// exactly on the equator / prime meridian
		symAssert(hemi == 'N' || hemi == 'S' || hemi == 'E' || hemi == 'W', "hemisphere-letter-present-at-exactly-zero")
	} else if lat {
		symAssert((dec > 0 && hemi == 'N') || (dec < 0 && hemi == 'S'), "hemisphere-letter-correct")
	} else {
		symAssert((dec > 0 && hemi == 'E') || (dec < 0 && hemi == 'W'), "hemisphere-letter-correct")
	}
	if symEngine() {
		var d, m float64
		if symFmtFloatCount() == 1 {
			// degrees printed through an integer verb (concrete digits on this
			// path), minutes through a float verb
			m = symFmtFloat(0)
			k, i := 0, 0
			for ; i < len(s) && s[i] >= '0' && s[i] <= '9'; i++ {
				k = k*10 + int(s[i]-'0')
			}
			symAssert(i < len(s) && s[i] == '-' && ((lat && i == 2) || (!lat && i == 3)), "format DD-MM.MMMMH")
			d = float64(k)
		} else {
			d, m = symFmtFloat(0), symFmtFloat(1)
		}
		symAssert(d >= 0 && d <= lim, "degrees-in-range")
		symAssert(m >= 0, "minutes-non-negative")
		symAssert(m < 59.99995, "minutes-print-below-60 (argument < 59.99995)")
		symAssert(d == float64(int(d)), "degrees-are-a-whole-number")
		// accuracy: beyond the solvers as a proof (three chained FP operations),
		// hunted for counterexamples only; see DESIGN.md section 5
		diff := d*60 + m - abs*60
		symAssertHunt(diff < 0.00005+1e-9, "stated-position-within-half-a-ten-thousandth-minute (not above)")
		symAssertHunt(diff > -0.00005-1e-9, "stated-position-within-half-a-ten-thousandth-minute (not below)")
	} else if hemi != ' ' {
		g := c20Re.FindStringSubmatch(s)
		symAssert(g != nil, "format DD-MM.MMMMH")
		if lat {
			symAssert(len(g[1]) == 2, "latitude-has-two-degree-digits")
		} else {
			symAssert(len(g[1]) == 3, "longitude-has-three-degree-digits")
		}
		d, _ := strconv.Atoi(g[1])
		mi, _ := strconv.Atoi(g[2])
		mf, _ := strconv.Atoi(g[3])
		symAssert(float64(d) <= lim, "degrees-are-a-whole-number-in-range")
		symAssert(mi < 60, "minutes-print-below-60 (argument < 59.99995)")
		diff := float64(d)*60 + float64(mi) + float64(mf)/10000 - abs*60
		symAssert(diff < 0.00005+1e-9, "stated-position-within-half-a-ten-thousandth-minute (not above)")
		symAssert(diff > -0.00005-1e-9, "stated-position-within-half-a-ten-thousandth-minute (not below)")
	}
	symReach("end")
}

// C20 K2: course formatting for every d in [-5, 365] x {magnetic,true}
func H_c20_course() {
	d := symInt(-5, 365)
	mag := symInt(0, 1) == 1
	c, err := NewCourse(d, mag)
	if d < 0 || d > 360 {
		symAssert(err != nil && c == nil, "out-of-range-course-refused")
		symReach("refused")
		return
	}
	symAssert(err == nil && c != nil, "course-in-range-accepted")
	s := c.String()
	symAssert(len(s) == 4, "course-is-three-digits-plus-letter")
	v := 0
	for i := 0; i < 3; i++ {
		symAssert(s[i] >= '0' && s[i] <= '9', "course-digits-are-ascii-digits")
		v = v*10 + int(s[i]-'0')
	}
	symAssert(v == d%360, "course-value (360 = 000)")
	symAssert((mag && s[3] == 'M') || (!mag && s[3] == 'T'), "course-letter")
	symReach("end")
}

// C20 K3: optional fields appear iff set; the message is valid for sending
func H_c20_message() {
	var p PosReport
	p.Date = time.Date(2016, 1, 2, 3, 4, 0, 0, time.UTC)
	// positions: an ordinary one, the poles / the date line exactly, the southern and western hemispheres
	pi := symInt(0, 4)
	lat := [...]float64{60.5, 90, -90, -0.5, 45.25}[pi]
	lon := [...]float64{5.25, 180, -180, -0.25, -120.75}[pi]
	wantLat := [...]string{"60-30.0000N", "90-00.0000N", "90-00.0000S", "00-30.0000S", "45-15.0000N"}[pi]
	wantLon := [...]string{"005-15.0000E", "180-00.0000E", "180-00.0000W", "000-15.0000W", "120-45.0000W"}[pi]
	speed := 3.5
	hasPos, hasSpeed, hasCourse, hasComment := symInt(0, 1) == 1, symInt(0, 1) == 1, symInt(0, 1) == 1, symInt(0, 1) == 1
	if hasPos {
		p.Lat, p.Lon = &lat, &lon
	} else if symInt(0, 1) == 1 {
		p.Lat = &lat // only one of the two set: no position lines
	}
	if hasSpeed {
		p.Speed = &speed
	}
	if hasCourse {
		p.Course, _ = NewCourse(123, false)
	}
	if hasComment {
		p.Comment = "hello"
	}
	msg := p.Message("N0CALL")
	symAssert(msg.Validate() == nil, "position-report-valid-for-sending")
	body, err := msg.Body()
	symAssert(err == nil, "body-readable")
	has := func(prefix string) bool { return strings.Contains(body, prefix) }
	symAssert(has("LATITUDE: "+wantLat+"\r\n") == hasPos && has("LONGITUDE: "+wantLon+"\r\n") == hasPos, "position-lines-iff-both-set")
	symAssert(has("LATITUDE: ") == hasPos && has("LONGITUDE: ") == hasPos, "position-lines-iff-both-set")
	symAssert(has("SPEED: ") == hasSpeed, "speed-line-iff-set")
	symAssert(has("COURSE: 123T\r\n") == hasCourse, "course-line-iff-set")
	symAssert(has("COMMENT: hello\r\n") == hasComment, "comment-line-iff-set")
	symAssert(strings.HasPrefix(body, "DATE: 2016/01/02 03:04\r\n"), "date-line-first")
	symReach("end")
}
