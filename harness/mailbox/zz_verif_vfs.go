package mailbox

import (
	"errors"
	"io"
	"io/fs"
	"os"
	"path"
	"path/filepath"
	"strings"
)

// Validation of the virtual file system against the real one: the same
// assertions run under the engine (model) and natively (kernel).  Not a
// property kernel; registered under C11 so that it runs with every check.
func H_vfs_model() {
	root := mboxRoot()
	symAssert(os.MkdirAll(path.Join(root, "d"), 0755) == nil, "mkdirall")
	_, err := os.Stat(path.Join(root, "d", "x"))
	symAssert(os.IsNotExist(err) && errors.Is(err, fs.ErrNotExist), "stat-missing")
	f, err := os.Create(path.Join(root, "d", "x"))
	symAssert(err == nil, "create")
	n, err := f.Write([]byte("hello"))
	symAssert(n == 5 && err == nil, "write")
	_, err = f.WriteString(" world")
	symAssert(err == nil && f.Sync() == nil && f.Close() == nil, "sync-close")
	symAssert(strings.HasSuffix(f.Name(), "/d/x"), "name")
	st, err := os.Stat(path.Join(root, "d", "x"))
	symAssert(err == nil && st.Size() == 11 && !st.IsDir() && st.Name() == "x", "stat-file")
	st, err = os.Lstat(path.Join(root, "d"))
	symAssert(err == nil && st.IsDir() && st.Name() == "d", "stat-dir")
	_, err = os.OpenFile(path.Join(root, "d", "x"), os.O_WRONLY|os.O_CREATE|os.O_EXCL, 0644)
	symAssert(os.IsExist(err) && errors.Is(err, fs.ErrExist), "excl")
	g, err := os.OpenFile(path.Join(root, "d", "x"), os.O_WRONLY|os.O_APPEND, 0644)
	symAssert(err == nil, "open-append")
	g.Write([]byte("!"))
	g.Close()
	b, err := os.ReadFile(path.Join(root, "d", "x"))
	symAssert(err == nil && string(b) == "hello world!", "append-content")
	symAssert(os.Mkdir(path.Join(root, "d", "sub"), 0755) == nil, "mkdir")
	symAssert(os.IsExist(os.Mkdir(path.Join(root, "d", "sub"), 0755)), "mkdir-exists")
	symAssert(os.WriteFile(path.Join(root, "d", "y.b2f"), []byte("y"), 0644) == nil, "writefile")
	ents, err := os.ReadDir(path.Join(root, "d"))
	symAssert(err == nil && len(ents) == 3 && ents[0].Name() == "sub" && ents[0].IsDir() && ents[1].Name() == "x" && ents[2].Name() == "y.b2f", "readdir")
	m, err := filepath.Glob(path.Join(root, "d", "*.b2f"))
	symAssert(err == nil && len(m) == 1 && strings.HasSuffix(m[0], "/d/y.b2f"), "glob")
	m, err = filepath.Glob(path.Join(root, "d", "y.*"))
	symAssert(err == nil && len(m) == 1, "glob2")
	symAssert(os.Link(path.Join(root, "d", "x"), path.Join(root, "d", "z")) == nil, "link")
	symAssert(os.IsExist(os.Link(path.Join(root, "d", "x"), path.Join(root, "d", "z"))), "link-exists")
	r, err := os.Open(path.Join(root, "d", "z"))
	symAssert(err == nil, "open")
	all, err := io.ReadAll(r)
	symAssert(err == nil && string(all) == "hello world!", "readall")
	r.Close()
	t, err := os.CreateTemp(path.Join(root, "d"), "t*.tmp")
	symAssert(err == nil && strings.HasSuffix(t.Name(), ".tmp"), "createtemp")
	src, _ := os.Open(path.Join(root, "d", "x"))
	c, err := io.Copy(t, src)
	symAssert(err == nil && c == 12, "copy")
	src.Close()
	t.Close()
	symAssert(os.Rename(t.Name(), path.Join(root, "d", "x2")) == nil, "rename")
	symAssert(os.Truncate(path.Join(root, "d", "x2"), 5) == nil, "truncate")
	b, _ = os.ReadFile(path.Join(root, "d", "x2"))
	symAssert(string(b) == "hello", "truncated")
	var walked []string
	filepath.Walk(path.Join(root, "d"), func(p string, info os.FileInfo, err error) error {
		if err == nil && !info.IsDir() {
			walked = append(walked, info.Name())
		}
		return nil
	})
	symAssert(strings.Join(walked, ",") == "x,x2,y.b2f,z", "walk")
	symAssert(os.Remove(path.Join(root, "d", "z")) == nil, "remove")
	_, err = os.Stat(path.Join(root, "d", "z"))
	symAssert(os.IsNotExist(err), "removed")
	symReach("end")
}
