package mailbox

import (
	"io/ioutil"
	"os"
	"path"
	"sort"
	"strings"

	"github.com/la5nta/wl2k-go/fbb"
)

// mailbox root: a virtual directory under the engine, a fresh temporary
// directory natively
func mboxRoot() string {
	d, err := os.MkdirTemp("", "verif-mbox")
	symAssume(err == nil)
	return path.Join(d, "a", "b", "a") // last component "a": sibling names such as "aa" are expressible over the path alphabet
}

func mkMessage(mid, to, cc string, p2pOnly bool, body string) *fbb.Message {
	m := &fbb.Message{Header: make(fbb.Header)}
	m.Header.Set(fbb.HEADER_MID, mid)
	m.Header.Set(fbb.HEADER_DATE, "2016/01/01 00:00")
	m.Header.Set(fbb.HEADER_TYPE, "Private")
	m.Header.Set(fbb.HEADER_FROM, "N0CALL")
	m.Header.Set(fbb.HEADER_SUBJECT, "subject "+mid)
	m.Header.Set(fbb.HEADER_MBO, "N0CALL")
	if to != "" {
		m.AddTo(to)
	}
	if cc != "" {
		m.AddCc(cc)
	}
	if p2pOnly {
		m.Header.Set("X-P2POnly", "true")
	}
	m.SetBody(body)
	return m
}

func listMIDs(dir string) []string {
	files, err := ioutil.ReadDir(dir)
	if err != nil {
		return nil
	}
	var out []string
	for _, f := range files {
		if strings.HasSuffix(f.Name(), Ext) {
			out = append(out, strings.TrimSuffix(f.Name(), Ext))
		}
	}
	sort.Strings(out)
	return out
}

func has(list []string, s string) bool {
	for _, x := range list {
		if x == s {
			return true
		}
	}
	return false
}

func midsOf(msgs []*fbb.Message) []string {
	var out []string
	for _, m := range msgs {
		out = append(out, m.MID())
	}
	sort.Strings(out)
	return out
}

func sameStrings(a, b []string) bool {
	if len(a) != len(b) {
		return false
	}
	for i := range a {
		if a[i] != b[i] {
			return false
		}
	}
	return true
}

var mids = [...]string{"MSGAAAAAAAA1", "MSGBBBBBBBB2", "MSGCCCCCCCC3"}

// arbitrary pre-state over the MID universe satisfying the invariant
// "an outbound MID is in at most one of out/sent"
type preState struct {
	out, sent, in [3]bool
	both          [3]bool // pre-state had the MID in out/ and sent/ at once
}

func buildPre(h *DirHandler, U int) preState {
	var st preState
	symAssume(h.Prepare() == nil)
	for i := 0; i < U; i++ {
		switch symInt(0, 3) {
		case 1:
			st.out[i] = true
			symAssume(h.AddOut(mkMessage(mids[i], "N1CALL", "", false, "out "+mids[i]+"\r\n")) == nil)
		case 2:
			st.sent[i] = true
			symAssume(h.AddOut(mkMessage(mids[i], "N1CALL", "", false, "out "+mids[i]+"\r\n")) == nil)
			symAssume(os.Rename(path.Join(h.MBoxPath, DIR_OUTBOX, mids[i]+Ext), path.Join(h.MBoxPath, DIR_SENT, mids[i]+Ext)) == nil)
		case 3:
			// a stale copy of a queued message in sent/ (the state AddOut leaves
			// behind when a MID that was sent before is queued again)
			st.out[i], st.sent[i], st.both[i] = true, true, true
			symAssume(h.AddOut(mkMessage(mids[i], "N1CALL", "", false, "out "+mids[i]+"\r\n")) == nil)
			b, err := ioutil.ReadFile(path.Join(h.MBoxPath, DIR_OUTBOX, mids[i]+Ext))
			symAssume(err == nil)
			symAssume(ioutil.WriteFile(path.Join(h.MBoxPath, DIR_SENT, mids[i]+Ext), b, 0644) == nil)
		}
		if symInt(0, 1) == 1 {
			st.in[i] = true
			symAssume(h.ProcessInbound(mkMessage(mids[i], "N0CALL", "", false, "in "+mids[i]+"\r\n")) == nil)
		}
	}
	return st
}

// C10 K1: one operation from an arbitrary pre-state equals the model step
func H_c10_step() {
	U := symParam("U", 2)
	root := mboxRoot()
	sendOnly := symInt(0, 1) == 1
	h := NewDirHandler(root, sendOnly)
	st := buildPre(h, U)
	// deferrals of this session
	var deferred [3]bool
	for i := 0; i < U; i++ {
		if st.out[i] && symInt(0, 1) == 1 {
			h.SetDeferred(mids[i])
			deferred[i] = true
		}
	}
	switch symInt(0, 2) {
	case 1:
		// restart: a fresh handler on the same directory, deferrals are gone
		h = NewDirHandler(root, sendOnly)
		symAssume(h.Prepare() == nil)
		deferred = [3]bool{}
	case 2:
		// next session on the same handler instance: a deferral lasts for one session
		symAssume(h.Prepare() == nil)
		deferred = [3]bool{}
	}
	i := symInt(0, U-1)
	op := symInt(0, 5)
	switch op {
	case 0: // GetOutbound for a CMS
		got := midsOf(h.GetOutbound())
		var want []string
		for k := 0; k < U; k++ {
			if st.out[k] && !deferred[k] {
				want = append(want, mids[k])
			}
		}
		symAssert(sameStrings(got, want), "GetOutbound = outbox minus deferred")
	case 1: // SetSent (only ever called for a message in the outbox)
		symAssume(st.out[i])
		h.SetSent(mids[i], symInt(0, 1) == 1)
		st.out[i], st.sent[i], st.both[i] = false, true, false
	case 2: // SetDeferred
		symAssume(st.out[i])
		h.SetDeferred(mids[i])
		symAssert(!has(midsOf(h.GetOutbound()), mids[i]), "deferred message not offered again in this session")
	case 3: // ProcessInbound
		msg := mkMessage(mids[i], "N0CALL", "", false, "new in "+mids[i]+"\r\n")
		want, _ := msg.Bytes()
		symAssert(h.ProcessInbound(msg) == nil, "ProcessInbound-ok")
		st.in[i] = true
		inbox, err := h.Inbox()
		symAssert(err == nil, "inbox-loads")
		found := false
		for _, m := range inbox {
			if m.MID() == mids[i] {
				found = true
				symAssert(IsUnread(m), "stored-inbound-flagged-unread")
				m.Header.Del("X-Unread")
				m.Header.Del("X-FilePath")
				got, _ := m.Bytes()
				symAssert(string(got) == string(want), "inbound-stored-intact")
			}
		}
		symAssert(found, "inbound-message-in-inbox")
	case 4: // GetInboundAnswer
		p := fbb.NewProposal(mids[i], "t", fbb.Wl2kProposal, []byte("x"))
		ans := h.GetInboundAnswer(*p)
		switch {
		case sendOnly:
			symAssert(ans == fbb.Defer, "send-only-defers-everything")
		case st.in[i]:
			symAssert(ans == fbb.Reject, "already-received-is-rejected")
		default:
			symAssert(ans == fbb.Accept, "unknown-mid-is-accepted")
		}
	case 5: // AddOut
		symAssume(!st.sent[i])
		symAssert(h.AddOut(mkMessage(mids[i], "N1CALL", "", false, "added\r\n")) == nil, "AddOut-ok")
		st.out[i] = true
	}
	// abstraction of the post-state equals the model's
	out, sent, in := listMIDs(path.Join(root, "out")), listMIDs(path.Join(root, "sent")), listMIDs(path.Join(root, "in"))
	for k := 0; k < U; k++ {
		symAssert(has(out, mids[k]) == st.out[k], "outbox-equals-model")
		symAssert(has(sent, mids[k]) == st.sent[k], "sent-equals-model")
		symAssert(has(in, mids[k]) == st.in[k], "inbox-equals-model")
		symAssert(st.both[k] || !(st.out[k] && st.sent[k]), "outbound-in-exactly-one-of-out/sent")
	}
	symAssert(h.OutboxCount() == len(out) && h.SentCount() == len(sent) && h.InboxCount() == len(in), "counts")
	symReach("end")
}

// C10 K2: routing filter and private headers
func H_c10_routing() {
	root := mboxRoot()
	h := NewDirHandler(root, false)
	symAssume(h.Prepare() == nil)
	tos := [...]string{"", "LA1A", "la1a", "LA1B", "la1a@winlink.org", "x@y.no"}
	to := tos[symInt(1, 5)]
	cc := tos[symInt(0, 5)]
	p2p := symInt(0, 1) == 1
	msg := mkMessage(mids[0], to, cc, p2p, "b\r\n")
	msg.Header.Set("X-Unread", "true")
	msg.Header.Set("X-Priority", "high") // the sender's own extension header: part of the message
	wantRaw, _ := func() ([]byte, error) {
		c := mkMessage(mids[0], to, cc, false, "b\r\n")
		c.Header.Set("X-Priority", "high")
		return c.Bytes()
	}()
	symAssume(h.AddOut(msg) == nil)
	fwsets := [...][]string{{}, {"LA1A"}, {"LA1B", "LA1A"}, {"X@Y.NO"}, {"LA1C"}}
	fwi := symInt(0, 4)
	var fws []fbb.Address
	for _, f := range fwsets[fwi] {
		fws = append(fws, fbb.AddressFromString(f))
	}
	got := h.GetOutbound(fws...)
	// specification
	want := false
	if len(fws) == 0 {
		want = !p2p
	} else if cc == "" {
		rcpt := fbb.AddressFromString(to).String()
		for _, f := range fws {
			if strings.EqualFold(rcpt, f.String()) {
				want = true
			}
		}
	}
	symAssert((len(got) == 1) == want, "returned-iff-eligible (CMS: not P2P-only; P2P: sole recipient is an announced forwarder)")
	for _, m := range got {
		symAssert(m.Header.Get("X-P2POnly") == "" && m.Header.Get("X-FilePath") == "" && m.Header.Get("X-Unread") == "", "returned-messages-carry-no-mailbox-private-headers")
		gotRaw, err := m.Bytes()
		symAssert(err == nil && string(gotRaw) == string(wantRaw), "returned-message-is-otherwise-what-was-queued")
	}
	symReach("end")
}

// lexical resolution of a slash path, written independently of path.Clean
func resolves(p string) []string {
	var stack []string
	seg := ""
	flush := func() {
		switch seg {
		case "", ".":
		case "..":
			if len(stack) > 0 {
				stack = stack[:len(stack)-1]
			}
		default:
			stack = append(stack, seg)
		}
		seg = ""
	}
	for i := 0; i < len(p); i++ {
		if p[i] == '/' {
			flush()
		} else {
			seg += string([]byte{p[i]})
		}
	}
	flush()
	return stack
}

func under(p, root string) bool {
	a, r := resolves(p), resolves(root)
	if len(a) < len(r) {
		return false
	}
	for i := range r {
		if a[i] != r[i] {
			return false
		}
	}
	return true
}

// C12: a remote-chosen MID never makes the mailbox touch a path outside its directory
func H_c12_paths() {
	L := symParam("L", 4)
	root := mboxRoot()
	h := NewDirHandler(root, false)
	symAssume(h.Prepare() == nil)
	symAssume(h.AddOut(mkMessage(mids[0], "N1CALL", "", false, "b\r\n")) == nil)
	mid := ""
	if symParam("ALPHA", 0) == 3 {
		// MID built from up to L path segments out of {"..", ".", "a", ""} joined by '/'
		n := symInt(1, L)
		for i := 0; i < n; i++ {
			if i > 0 {
				mid += "/"
			}
			mid += [...]string{"..", ".", "a", ""}[symInt(0, 3)]
		}
	} else {
		mid = symString(symInt(0, L))
	}
	for i := 0; i < len(mid); i++ {
		symAssume(mid[i] != '\r' && mid[i] != '\n') // cannot occur in a header value / proposal field
		switch symParam("ALPHA", 0) {
		case 1: // path-relevant alphabet (pins the bytes)
			symAssume(mid[i] == '.' || mid[i] == '/' || mid[i] == 'a')
		case 2:
			symAssume(mid[i] == '.' || mid[i] == '/' || mid[i] == 'a' || mid[i] == '\\' || mid[i] == 0)
		}
	}
	start := symFSPathCount()
	func() {
		defer func() {
			recover() // log.Fatalf / panics on bad input are not C12's business, paths are checked regardless
		}()
		c12Op(h, mid)
	}()
	if symEngine() {
		for i := start; i < symFSPathCount(); i++ {
			symAssert(under(symFSPath(i), root), "every-path-handed-to-the-file-system-lies-inside-the-mailbox-directory")
		}
	} else {
		// natively: nothing may have appeared outside the mailbox directory
		base := path.Dir(path.Dir(path.Dir(root)))
		bad := false
		var walk func(d string)
		walk = func(d string) {
			ents, _ := ioutil.ReadDir(d)
			for _, e := range ents {
				p := path.Join(d, e.Name())
				if p == root {
					continue
				}
				if e.IsDir() {
					walk(p)
				} else {
					bad = true
				}
			}
		}
		walk(base)
		symAssert(!bad, "every-path-handed-to-the-file-system-lies-inside-the-mailbox-directory")
	}
	symReach("end")
}

// C12 K2: header content chosen by the remote.  A received message carries a
// header field (one of the mailbox-private names or an ordinary one) whose
// value is path-like: a sibling of the mailbox, a dot-dot path, or an
// arbitrary short string over the path alphabet.  It is stored, loaded back
// and its read flag rewritten; every path handed to the file system has to
// lie inside the mailbox.
func H_c12_headers() {
	L := symParam("L", 3)
	root := mboxRoot()
	h := NewDirHandler(root, false)
	symAssume(h.Prepare() == nil)
	name := [...]string{"X-FilePath", "X-Unread", "X-P2POnly", "Subject", "X-Filepath", "Mbo"}[symInt(0, 5)]
	var value string
	switch symInt(0, 3) {
	case 0:
		value = path.Join(path.Dir(root), "evil"+Ext) // a sibling of the mailbox directory
	case 1:
		value = "../../evil" + Ext
	case 2:
		value = path.Join(root, "in") + "/../../evil" + Ext
	case 3:
		value = symString(symInt(1, L))
		for i := 0; i < len(value); i++ {
			symAssume(value[i] == '.' || value[i] == '/' || value[i] == 'a')
		}
		symAssume(value[0] != ' ' && value[len(value)-1] != ' ')
	}
	msg := mkMessage(mids[0], "N0CALL", "", false, "b\r\n")
	msg.Header.Set(name, value)
	start := symFSPathCount()
	func() {
		defer func() { recover() }()
		h.ProcessInbound(msg)
		inbox, _ := h.Inbox()
		for _, m := range inbox {
			SetUnread(m, false)
			SetUnread(m, true)
		}
		h.GetInboundAnswer(*fbb.NewProposal(mids[0], "t", fbb.Wl2kProposal, []byte("x")))
	}()
	if symEngine() {
		for i := start; i < symFSPathCount(); i++ {
			symAssert(under(symFSPath(i), root), "every-path-handed-to-the-file-system-lies-inside-the-mailbox-directory")
		}
	} else {
		symAssert(!strayFiles(root), "every-path-handed-to-the-file-system-lies-inside-the-mailbox-directory")
	}
	symReach("end")
}

// natively: did a regular file appear under the temporary base directory but
// outside the mailbox directory?
func strayFiles(root string) bool {
	base := path.Dir(path.Dir(path.Dir(root)))
	bad := false
	var walk func(d string)
	walk = func(d string) {
		ents, _ := ioutil.ReadDir(d)
		for _, e := range ents {
			p := path.Join(d, e.Name())
			if p == root {
				continue
			}
			if e.IsDir() {
				walk(p)
			} else {
				bad = true
			}
		}
	}
	walk(base)
	return bad
}

func c12Op(h *DirHandler, mid string) {
	switch symInt(0, 3) {
	case 0:
		msg := mkMessage("X", "N0CALL", "", false, "b\r\n")
		msg.Header.Set(fbb.HEADER_MID, mid)
		h.ProcessInbound(msg)
	case 1:
		p := fbb.NewProposal(mid, "t", fbb.Wl2kProposal, []byte("x"))
		h.GetInboundAnswer(*p)
	case 2:
		symAssume(mid != mids[0])
		if symEngine() { // natively log.Fatalf would end the process before the check
			h.SetSent(mid, symInt(0, 1) == 1)
		}
	case 3:
		h.SetDeferred(mid)
	}
}

// C11: crash at any point of a mailbox operation (engine-only crash injection:
// the virtual file system interrupts the k-th mutating call before it, or —
// for a file write — after creating the file and writing any prefix; rename
// is atomic).  After the crash a fresh handler must find a consistent mailbox.
func H_c11_crash() {
	root := mboxRoot()
	h := NewDirHandler(root, false)
	symAssume(h.Prepare() == nil)
	// previously stored messages: one inbound, one outbound
	other := mkMessage(mids[1], "N0CALL", "", false, "other inbound\r\n")
	symAssume(h.ProcessInbound(other) == nil)
	outMsg := mkMessage(mids[2], "N1CALL", "", false, "outbound\r\n")
	symAssume(h.AddOut(outMsg) == nil)
	otherRaw, _ := OpenMessage(path.Join(root, "in", mids[1]+Ext))
	symAssume(otherRaw != nil)

	op := symInt(0, 3)
	k := symInt(1, symParam("KMAX", 4)) // which mutating call of the operation is interrupted
	newIn := mkMessage(mids[0], "N0CALL", "", false, "the message being received when the crash happens\r\n")
	wantIn, _ := func() ([]byte, error) {
		c := mkMessage(mids[0], "N0CALL", "", false, "the message being received when the crash happens\r\n")
		c.Header.Set("X-Unread", "true")
		return c.Bytes()
	}()
	crashed := false
	func() {
		defer func() {
			if r := recover(); r != nil {
				crashed = true
			}
		}()
		symFSCrashAt(symFSOps() + k)
		switch op {
		case 0:
			h.ProcessInbound(newIn)
		case 1:
			h.AddOut(mkMessage(mids[0], "N1CALL", "", false, "new outbound\r\n"))
		case 2:
			h.SetSent(mids[2], false)
		case 3:
			inbox, _ := h.Inbox()
			for _, m := range inbox {
				if m.MID() == mids[1] {
					SetUnread(m, false)
				}
			}
		}
		symFSCrashAt(0)
	}()
	symFSCrashAt(0)
	if crashed {
		symReach("crashed")
	} else {
		symReach("completed")
	}
	// restart
	r := NewDirHandler(root, false)
	symAssert(r.Prepare() == nil, "prepare-after-restart")
	inbox, err := r.Inbox()
	symAssert(err == nil, "inbox-loads-after-crash")
	_, err = r.Outbox()
	symAssert(err == nil, "outbox-loads-after-crash")
	_, err = r.Sent()
	symAssert(err == nil, "sent-loads-after-crash")
	// the previously stored inbound message is intact (apart from the read flag when that was the operation)
	foundOther := false
	for _, m := range inbox {
		if m.MID() == mids[1] {
			foundOther = true
			b, _ := m.Body()
			symAssert(b == "other inbound\r\n", "previously-stored-message-intact")
		}
	}
	symAssert(foundOther, "previously-stored-message-still-listed")
	// the outbound message is still in outbox or sent
	symAssert(has(listMIDs(path.Join(root, "out")), mids[2]) != has(listMIDs(path.Join(root, "sent")), mids[2]), "outbound-message-in-exactly-one-of-out/sent")
	// 'already received' only with a complete copy
	p := fbb.NewProposal(mids[0], "t", fbb.Wl2kProposal, []byte("x"))
	if r.GetInboundAnswer(*p) == fbb.Reject {
		symReach("answered-already-received")
		b, rerr := ioutil.ReadFile(path.Join(root, "in", mids[0]+Ext))
		symAssert(rerr == nil && string(b) == string(wantIn), "already-received-only-with-a-complete-copy-in-the-inbox")
	}
	symReach("end")
}

// C10 K3 (also the receiving half of C02): a storage error is reported.  One
// of the file-system operations of ProcessInbound / AddOut fails with an I/O
// error (nothing done, or a prefix written first: disk full).  The call must
// not report success unless the message is stored completely; whatever
// happened, the folders still load and a proposal for the MID is rejected only
// if a complete copy is in the inbox.
func H_c10_store_error() {
	root := mboxRoot()
	h := NewDirHandler(root, false)
	symAssume(h.Prepare() == nil)
	symAssume(h.ProcessInbound(mkMessage(mids[1], "N0CALL", "", false, "other inbound\r\n")) == nil)
	op := symInt(0, 1)
	k := symInt(1, symParam("KMAX", 3))
	msg := mkMessage(mids[0], "N0CALL", "", false, "the message being stored when the disk fails\r\n")
	want, _ := func() ([]byte, error) {
		c := mkMessage(mids[0], "N0CALL", "", false, "the message being stored when the disk fails\r\n")
		if op == 0 {
			c.Header.Set("X-Unread", "true")
		}
		return c.Bytes()
	}()
	symFSFailAt(symFSOps() + k)
	var err error
	folder := "in"
	if op == 0 {
		err = h.ProcessInbound(msg)
	} else {
		folder = "out"
		msg = mkMessage(mids[0], "N1CALL", "", false, "the message being stored when the disk fails\r\n")
		want, _ = msg.Bytes()
		err = h.AddOut(msg)
	}
	failed := symFSOps() >= 0 // the fault point may lie beyond the operation's last call
	_ = failed
	symFSFailAt(0)
	data, rerr := ioutil.ReadFile(path.Join(root, folder, mids[0]+Ext))
	complete := rerr == nil && string(data) == string(want)
	if err == nil {
		symReach("reported-ok")
		symAssert(complete, "success-reported-only-if-the-message-is-stored-completely")
	} else {
		symReach("reported-error")
	}
	// restart
	h2 := NewDirHandler(root, false)
	symAssert(h2.Prepare() == nil, "prepare-after-a-storage-error")
	_, e1 := h2.Inbox()
	_, e2 := h2.Outbox()
	symAssert(e1 == nil && e2 == nil, "folders-load-after-a-storage-error")
	if op == 0 {
		ans := h2.GetInboundAnswer(*fbb.NewProposal(mids[0], "t", fbb.Wl2kProposal, []byte("x")))
		symAssert(ans != fbb.Reject || complete, "already-received-only-if-a-complete-copy-is-in-the-inbox")
	}
	symReach("end")
}
