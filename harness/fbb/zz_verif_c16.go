package fbb

import (
	"crypto/md5"
	"errors"
	"strings"
)

// salt as published in paclink-unix (independent copy)
var refSalt = [...]byte{
	77, 197, 101, 206, 190, 249, 93, 200, 51, 243, 93, 237, 71, 94, 239, 138,
	68, 108, 70, 185, 225, 137, 217, 16, 51, 122, 193, 48, 194, 195, 198, 175,
	172, 169, 70, 84, 61, 62, 104, 186, 114, 52, 61, 168, 66, 129, 192, 208,
	187, 249, 232, 193, 41, 113, 41, 45, 240, 16, 29, 228, 208, 228, 61, 20}

// reference: last eight decimal digits, zero padded, of LE32(d[0:4]) & 0x3FFFFFFF
func refSecureResponse(d [16]byte) string {
	v := (uint32(d[0]) | uint32(d[1])<<8 | uint32(d[2])<<16 | uint32(d[3])<<24) & 0x3FFFFFFF
	var out [8]byte
	for i := 7; i >= 0; i-- {
		out[i] = byte('0' + v%10)
		v /= 10
	}
	return string(out[:])
}

func c16Check(challenge, password string, digest [16]byte, resp string) {
	symAssert(len(resp) == 8, "response-has-eight-characters")
	symAssert(resp == refSecureResponse(digest), "response-is-zero-padded-last-eight-digits-of-masked-le32")
}

// C16 K1
func H_c16_response() {
	L := symParam("L", 2)
	ch := symString(symInt(0, L))
	pw := symString(symInt(0, L))
	if !symEngine() {
		// native confirmation: real MD5 on the vector's challenge/password ...
		resp := secureLoginResponse(ch, pw)
		payload := append(append([]byte(ch), pw...), refSalt[:]...)
		want := refSecureResponse(md5.Sum(payload))
		symAssert(resp == want, "md5-over-challenge-password-salt")
		// ... and a search over many real digests for the arithmetic assertions
		// (a digest cannot be forced natively)
		for i := 0; i < 1<<18; i++ {
			c, p := refItoa(i), "pw"+refItoa(i%7)
			r := secureLoginResponse(c, p)
			pl := append(append([]byte(c), p...), refSalt[:]...)
			c16Check(c, p, md5.Sum(pl), r)
		}
		symReach("end")
		return
	}
	resp := secureLoginResponse(ch, pw)
	want := append(append([]byte(ch), pw...), refSalt[:]...)
	symAssert(string(c16LastMD5Arg) == string(want), "md5-over-challenge-password-salt")
	c16Check(ch, pw, c16Digest, resp)
	symReach("end")
}

// C16 K2/K3: handshake reply to a ;PQ challenge
func H_c16_handshake() {
	// concrete challenges (the response arithmetic for all digests is K1); real MD5 is executed
	challenge := [...]string{"23753528", "1", "ABCDEFGHIJ"}[symInt(0, 2)]
	naux := symInt(0, 2)
	// per address: 0 = password known, 1 = empty password, 2 = callback error
	mode := make([]int, naux+1)
	for i := range mode {
		mode[i] = symInt(0, 2)
	}
	noCallback := symInt(0, 1) == 1
	conn := newVConn([]byte(";PQ: " + challenge + "\r[RMS-1.0-B2FHM$]\rCMS>\r"))
	s := NewSession("N0CALL", "N1CALL", "JP20QE", &recHandler{failAt: -1})
	s.SetLogger(quietLogger())
	s.IsMaster(false)
	s.rd = bufioReader(conn)
	aux := []string{"AUX1", "AUX2"}
	for i := 0; i < naux; i++ {
		s.AddAuxiliaryAddress(AddressFromString(aux[i]))
	}
	pwOf := func(addr string) (int, string) {
		idx := 0
		for i := 0; i < naux; i++ {
			if addr == aux[i] {
				idx = i + 1
			}
		}
		return idx, "secret" + refItoa(idx)
	}
	if !noCallback {
		s.SetSecureLoginHandleFunc(func(a Address) (string, error) {
			idx, pw := pwOf(a.Addr)
			switch mode[idx] {
			case 0:
				return pw, nil
			case 1:
				return "", nil
			}
			return "", errors.New("no password")
		})
	}
	err := s.handshake(conn)
	out := string(conn.out)
	if noCallback {
		symAssert(err != nil, "challenge-without-callback-fails-the-handshake")
		symAssert(len(out) == 0, "nothing-written-without-callback")
		symReach("no-callback")
		symReach("end")
		return
	}
	if mode[0] == 2 {
		symAssert(err != nil, "callback-error-for-main-address-fails-the-handshake")
		symReach("main-error")
		symReach("end")
		return
	}
	symAssert(err == nil, "handshake-ok")
	// expected wire text, from the algorithm of the reference
	resp := func(idx int) string {
		_, pw := pwOf(append([]string{"N0CALL"}, aux...)[idx])
		if idx == 0 && mode[0] == 1 {
			pw = ""
		}
		return secureLoginResponse(challenge, pw)
	}
	fw := ";FW: N0CALL"
	for i := 0; i < naux; i++ {
		if mode[i+1] == 0 {
			fw += " " + aux[i] + "|" + resp(i+1)
		} else {
			fw += " " + aux[i]
		}
	}
	lines := strings.Split(out, "\r")
	symAssert(len(lines) >= 4 && lines[0] == fw, "fw-line-has-address|response-iff-password-known")
	symAssert(lines[2] == ";PR: "+resp(0), "pr-line-carries-the-response-for-the-main-address")
	for i := 0; i <= naux; i++ {
		_, pw := pwOf(append([]string{"N0CALL"}, aux...)[i])
		symAssert(!strings.Contains(out, pw), "password-never-on-the-wire")
	}
	symReach("end")
}
