package fbb

import "bytes"

// C04 K1: frame integrity.  A reference-encoded frame (symbolic payload) is
// altered in transit by one symbolic mutation; whenever readCompressed accepts
// the result, the independent reference parser must accept it too and yield
// the same payload of the declared size at the requested offset.
func H_c04_frame() {
	K := symParam("K", 3)
	k := symInt(1, K)
	data := symBytes(k)
	split := symInt(0, k) // first chunk size (0 = default chunking)
	var chunks []int
	if split > 0 {
		chunks = []int{split}
	}
	frame := refEncodeFrame("T", 0, data, chunks)
	mut := symInt(0, 3)
	var in []byte
	switch mut {
	case 0: // untouched
		in = frame
		symReach("untouched")
	case 1: // substitute one byte
		p := symInt(0, len(frame)-1)
		v := symByte()
		symAssume(v != frame[p])
		in = append([]byte(nil), frame...)
		in[p] = v
	case 2: // delete one byte
		p := symInt(0, len(frame)-1)
		in = append(append([]byte(nil), frame[:p]...), frame[p+1:]...)
	case 3: // insert one byte
		p := symInt(0, len(frame))
		v := symByte()
		in = append(append(append([]byte(nil), frame[:p]...), v), frame[p:]...)
	}
	conn := newVConn(in)
	s := newVSession(&recHandler{failAt: -1}, conn, false)
	prop := &Proposal{code: Wl2kProposal, mid: "MID", compressedSize: k}
	err := s.readCompressed(conn, prop)
	if err == nil {
		symReach("accepted")
		_, rdata, _, ok := refParseFrame(in, "0")
		symAssert(ok, "accepted-frame-is-valid-per-reference (checksum, header length, offset, structure)")
		symAssert(len(prop.compressedData) == k, "accepted-frame-has-declared-compressed-size")
		symAssert(bytes.Equal(prop.compressedData, rdata), "accepted-payload-equals-reference-payload")
		if mut == 0 {
			symAssert(bytes.Equal(prop.compressedData, data), "untouched-frame-delivers-sent-payload")
		}
	} else if mut == 0 {
		symAssert(false, "untouched-frame-is-accepted")
	}
	symReach("end")
}

// a small valid message, serialised
func c04Message() (*Message, []byte) {
	m := &Message{Header: make(Header)}
	m.Header.Set(HEADER_MID, "ABCDEFGHIJKL")
	m.Header.Set(HEADER_DATE, "2016/01/01 00:00")
	m.Header.Set(HEADER_TYPE, "Private")
	m.Header.Set(HEADER_FROM, "N0CALL")
	m.Header.Set(HEADER_TO, "N1CALL")
	m.Header.Set(HEADER_SUBJECT, "s")
	m.Header.Set(HEADER_MBO, "N0CALL")
	m.body = []byte("hello\r\n")
	m.Header.Set(HEADER_BODY, "7")
	b, err := m.Bytes()
	symAssume(err == nil)
	return m, b
}

// C04 K3: damage to the compressed payload that the 8-bit block checksum does
// not see (pairs +d/-d, or the payload header bytes) must not be delivered
// unless the independent reference (CRC-16 fold + size + canonical decoding)
// accepts it as well.  Whole receive path: handleInbound -> readCompressed ->
// Proposal.Message -> ProcessInbound, real LZHUF codec.
func H_c04_transit() {
	_, raw := c04Message()
	prop := NewProposal("ABCDEFGHIJKL", "s", Wl2kProposal, raw)
	z := append([]byte(nil), prop.compressedData...)
	n := len(z)
	R := symParam("RANGE", 8) // positions 0..RANGE-1 of the payload are candidates
	if R > n {
		R = n
	}
	i := symInt(0, R-2)
	j := symInt(i+1, R-1)
	// the delta is enumerated (1..255) rather than left to the solver: the
	// acceptance condition is a CRC-16 preimage question, which no solver
	// decides; with the delta concrete the whole receive path runs concretely
	d := byte(symInt(1, 255))
	z[i] += d
	z[j] -= d // sum preserved: the block checksum still matches

	var in []byte
	in = append(in, refProposalBlock([]string{refProposalLine('C', "ABCDEFGHIJKL", len(raw), n)})...)
	in = append(in, refEncodeFrame("s", 0, z, nil)...)
	in = append(in, "FF\r"...)
	conn := newVConn(in)
	h := &recHandler{failAt: -1}
	s := newVSession(h, conn, false)
	_, err := s.handleInbound(conn)
	if len(h.inbound) > 0 {
		symReach("delivered")
		// reference verdict on the altered payload
		crcOK := refCRC16LE(z[2:]) == (uint16(z[0]) | uint16(z[1])<<8)
		size := int(int32(uint32(z[2]) | uint32(z[3])<<8 | uint32(z[4])<<16 | uint32(z[5])<<24))
		symAssert(crcOK, "delivered-implies-payload-crc16-valid")
		symAssert(size == len(raw) || size >= 0, "delivered-implies-size-field-sane")
		got, gerr := h.inbound[0].Bytes()
		symAssert(gerr == nil && len(got) == size, "delivered-implies-declared-size-matches")
	} else {
		symReach("not-delivered")
		symAssert(err != nil, "not-delivered-implies-error")
	}
	symReach("end")
}

// bitwise CRC-16/XMODEM over p (reference for the payload header)
func refCRC16LE(p []byte) uint16 {
	var crc uint16
	for _, b := range p {
		crc ^= uint16(b) << 8
		for i := 0; i < 8; i++ {
			if crc&0x8000 != 0 {
				crc = crc<<1 ^ 0x1021
			} else {
				crc <<= 1
			}
		}
	}
	return crc
}
