package fbb

import "strings"

// strip CR and LF
func stripCRLF(s string) string {
	return strings.Replace(strings.Replace(s, "\r", "", -1), "\n", "", -1)
}

func c18Check(text string) {
	m := &Message{Header: make(Header)}
	err := m.SetBody(text)
	symAssert(err == nil, "SetBody-ok")
	stored := m.body
	symAssert(m.BodySize() == len(stored), "Body-header-equals-stored-length")
	// every line ends in CRLF and is at most 1000 bytes including CRLF
	start := 0
	for i := 0; i < len(stored); i++ {
		if stored[i] == '\n' {
			symAssert(i > 0 && stored[i-1] == '\r', "every-LF-is-preceded-by-CR")
			symAssert(i+1-start <= 1000, "no-line-longer-than-1000-bytes-including-CRLF")
			start = i + 1
		}
	}
	symAssert(start == len(stored), "stored-body-ends-with-CRLF (or is empty)")
	// nothing dropped, nothing altered: the decoded stored body equals the input modulo CR/LF
	back, err := BodyFromBytes(stored, DefaultCharset)
	symAssert(err == nil, "body-decodes")
	symAssert(stripCRLF(back) == stripCRLF(text), "text-preserved-apart-from-line-normalisation")
}

// C18 K1: every text of up to N Latin-1 representable characters
func H_c18_short() {
	N := symParam("N", 3)
	n := symInt(0, N)
	text := ""
	for i := 0; i < n; i++ {
		text += c18SymChar()
	}
	c18Check(text)
	symReach("end")
}

// C18 K2: wrap boundary — one long line with Latin-1 characters placed around byte 998
func H_c18_wrap() {
	total := [...]int{996, 997, 998, 999, 1000, 1001, 1002, 1995, 1996, 1997, 1998}[symInt(0, symParam("NLEN", 7)-1)]
	pos := 994 + symInt(0, 6) // position of the window
	if total > 1500 {
		pos += 998
	}
	var sb strings.Builder
	for sb.Len() < pos {
		sb.WriteByte('a')
	}
	for k := 0; k < 3; k++ {
		sb.WriteString([...]string{"b", "é", "ÿ", " "}[symInt(0, 3)])
	}
	for sb.Len() < total {
		sb.WriteByte('c')
	}
	text := sb.String()
	if symInt(0, 1) == 1 {
		text += "\nnext line"
	}
	c18Check(text)
	symReach("end")
}

// C18 K3: very long lines are not dropped
func H_c18_long() {
	n := [...]int{65534, 65535, 65536, 65537, 70000}[symInt(0, symParam("NLEN", 3)-1)]
	text := strings.Repeat("x", n)
	switch symInt(0, 2) {
	case 1:
		text += "\nTAIL"
	case 2:
		text = "HEAD\r\n" + text + "\r\n"
	}
	symBudget(400000000)
	c18Check(text)
	symReach("end")
}

// C18 K4: the stored body of one message is not disturbed by composing another
// one afterwards (conversion results must not share storage)
func H_c18_two() {
	N := symParam("N", 2)
	t1, t2 := "", ""
	for i, n := 0, symInt(1, N); i < n; i++ {
		t1 += c18SymChar()
	}
	for i, n := 0, symInt(0, N); i < n; i++ {
		t2 += c18SymChar()
	}
	m1 := &Message{Header: make(Header)}
	symAssert(m1.SetBody(t1) == nil, "SetBody-ok")
	first := string(m1.body)
	m2 := &Message{Header: make(Header)}
	symAssert(m2.SetBody(t2) == nil, "SetBody-ok")
	symAssert(string(m1.body) == first, "stored-body-unchanged-by-a-later-SetBody-on-another-message")
	back, err := BodyFromBytes(m1.body, DefaultCharset)
	symAssert(err == nil && stripCRLF(back) == stripCRLF(t1), "text-preserved-apart-from-line-normalisation")
	back2, err := BodyFromBytes(m2.body, DefaultCharset)
	symAssert(err == nil && stripCRLF(back2) == stripCRLF(t2), "text-preserved-apart-from-line-normalisation")
	symReach("end")
}

// C18 K5: non-ASCII characters all over a text of more than 64 KiB: wherever
// an implementation cuts the text into pieces (32 KiB blocks, buffer refills),
// a two-byte character sits across the cut for one of the two parities
func H_c18_chunks() {
	shift := strings.Repeat("x", symInt(0, 1))
	line := strings.Repeat("\u00e9", 399) + "\n"
	text := shift + strings.Repeat(line, symParam("LINES", 90))
	symBudget(1500000000)
	c18Check(text)
	symReach("end")
}
