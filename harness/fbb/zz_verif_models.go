package fbb

import (
	"bytes"
	"fmt"
	"compress/gzip"
	"hash/crc32"
	"io"
)

// Validation of engine models the gzip kernels rely on (not a property
// kernel): the bitwise hash/crc32 model against the published check values,
// and a gzip round trip of a symbolic byte through the real compress/gzip and
// compress/flate code.
func H_models_gzip() {
	symAssert(crc32.ChecksumIEEE([]byte("123456789")) == 0xCBF43926, "crc32-ieee-check-value")
	symAssert(crc32.Checksum([]byte("123456789"), crc32.MakeTable(crc32.Castagnoli)) == 0xE3069283, "crc32-castagnoli-check-value")
	h := crc32.NewIEEE()
	h.Write([]byte("1234"))
	h.Write([]byte("56789"))
	symAssert(h.Sum32() == 0xCBF43926, "crc32-digest-incremental")
	b := symByte()
	var buf bytes.Buffer
	w := gzip.NewWriter(&buf)
	w.Write([]byte{'a', b, 'c'})
	symAssert(w.Close() == nil, "gzip-close")
	r, err := gzip.NewReader(&buf)
	symAssert(err == nil, "gzip-header")
	out, err := io.ReadAll(r)
	symAssert(err == nil && len(out) == 3 && out[0] == 'a' && out[1] == b && out[2] == 'c', "gzip-round-trip")
	symReach("end")
}

// Validation of the fmt model on a symbolic format string (a caller passing
// user data as the format): literal bytes pass through, "%%" collapses, a
// dangling verb yields fmt's diagnostic text.
func H_models_fmt() {
	b := symBytes(2)
	for _, c := range b {
		symAssume(c >= 0x20 && c < 0x7f)
	}
	s := string(b)
	out := fmt.Sprintf(s + "\r")
	switch {
	case b[0] != '%' && b[1] != '%':
		symAssert(out == s+"\r", "literal-format-passes-through")
		symReach("literal")
	case b[0] == '%' && b[1] == '%':
		symAssert(out == "%\r", "double-percent-collapses")
		symReach("escaped")
	default:
		symAssert(out != s+"\r", "a-verb-without-operand-is-not-copied-verbatim")
		symReach("verb")
	}
	symReach("end")
}

// the third session message is meant to be incompressible: its compressed
// form is larger than the message (a precondition of the kernels that use it)
func H_models_incompressible() {
	m := c01Msgs(3)[2]
	raw, err := m.Bytes()
	symAssert(err == nil, "serialise-ok")
	p := NewProposal(m.MID(), m.Subject(), Wl2kProposal, raw)
	symAssert(len(p.compressedData) > len(raw), "compressed-form-larger-than-the-message")
	symReach("end")
}
