package fbb

import (
	"bytes"
	"io"
	"net"
	"strings"
	"time"
)

// C01 K4 / C02 K1 (no fault): sender bookkeeping against a scripted peer.
//
//	n outbound messages, the peer answers each with a symbolic policy
//	(+, -, =), then starts its turn with a symbolic byte.
func H_c01_sender() {
	N := symParam("N", 2)
	n := symInt(symParam("NMIN", 1), N)
	msgs := c01Msgs(n)
	h := &recHandler{failAt: -1, out: msgs}
	nb := n
	if nb > 5 {
		nb = 5
	}
	ans := make([]byte, nb)
	if symParam("PATTERNS", 0) == 1 {
		// four answer patterns instead of all 3^nb combinations
		pat := [...]string{"+++++", "-----", "=====", "+-=+-"}[symInt(0, 3)]
		copy(ans, pat)
	} else {
		for i := range ans {
			ans[i] = [...]byte{'+', '-', '='}[symInt(0, 2)]
		}
	}
	next := symByte()
	var in []byte
	in = append(in, "FS "...)
	in = append(in, ans...)
	in = append(in, '\r', next)
	in = append(in, "F\r"...)
	conn := newVConn(in)
	s := newVSession(h, conn, true)
	s.remoteSID = "B2FHM$"
	_, err := s.handleOutbound(conn)

	// what went over the wire: proposal block, then one frame per accepted proposal, in proposal order
	props := s.outbound() // same deterministic order as used by handleOutbound
	var lines []string
	for i := 0; i < nb; i++ {
		lines = append(lines, refProposalLine('C', props[i].mid, props[i].size, props[i].compressedSize))
	}
	block := refProposalBlock(lines)
	symAssert(len(conn.out) >= len(block) && bytes.Equal(conn.out[:len(block)], block[:len(block)-3]) || hexTailOK(conn.out, block), "proposal-block-conforms")
	rest := conn.out[len(block):]
	for i := 0; i < nb; i++ {
		mid := props[i].mid
		switch ans[i] {
		case '+':
			_, data, used, ok := refParseFrame(rest, "0")
			symAssert(ok, "one-valid-frame-per-accepted-proposal-in-order")
			symAssert(bytes.Equal(data, props[i].compressedData), "frame-carries-that-message")
			rest = rest[used:]
		case '-':
			symAssert(count(h.rejected, mid) == 1 && count(h.sent, mid) == 0, "rejected-reported-already-received-exactly-once")
		case '=':
			symAssert(count(h.deferred, mid) == 1 && count(h.sent, mid) == 0 && count(h.rejected, mid) == 0, "deferred-reported-deferred-and-not-sent")
		}
	}
	symAssert(len(rest) == 0, "no-frame-for-rejected-or-deferred-proposals")
	confirmed := next == 'F' || next == ';'
	for i := 0; i < nb; i++ {
		mid := props[i].mid
		if ans[i] == '+' {
			if confirmed {
				symAssert(count(h.sent, mid) == 1, "accepted-and-confirmed-reported-sent-exactly-once")
				symAssert(count(s.trafficStats.Sent, mid) == 1, "stats-list-transferred-mid-once")
			} else {
				symAssert(count(h.sent, mid) == 0, "unconfirmed-never-reported-sent")
				symAssert(count(s.trafficStats.Sent, mid) == 0, "stats-do-not-list-unconfirmed-transfers")
			}
		} else {
			symAssert(count(s.trafficStats.Sent, mid) == 0, "stats-do-not-list-untransferred")
		}
	}
	// messages that did not fit into this block of five stay pending: nothing is reported for them
	for i := nb; i < n; i++ {
		mid := props[i].mid
		symAssert(count(h.sent, mid) == 0 && count(h.rejected, mid) == 0 && count(h.deferred, mid) == 0, "messages-beyond-the-block-of-five-stay-pending")
		symAssert(count(s.trafficStats.Sent, mid) == 0, "stats-do-not-list-untransferred")
	}
	if confirmed {
		symAssert(err == nil, "confirmed-turn-returns-nil")
		symReach("confirmed")
	} else {
		symAssert(err != nil, "unconfirmed-turn-returns-error")
		symReach("unconfirmed")
	}
	symReach("end")
}

func hexTailOK(got, want []byte) bool {
	if len(got) < len(want) {
		return false
	}
	for i := range want {
		if i >= len(want)-3 && i < len(want)-1 {
			if !eqFoldHex(got[i], want[i]) {
				return false
			}
		} else if got[i] != want[i] {
			return false
		}
	}
	return true
}

// C01 K5: receiver delivery.  The reference peer proposes n messages; the
// handler decides each with a symbolic policy; the peer then sends a frame for
// every accepted proposal.
func H_c01_receiver() {
	N := symParam("N", 2)
	n := symInt(1, N)
	msgs := c01Msgs(n)
	pol := make([]ProposalAnswer, n)
	for i := range pol {
		pol[i] = [...]ProposalAnswer{Accept, Reject, Defer}[symInt(0, 2)]
	}
	var lines []string
	raws := make([][]byte, n)
	zs := make([][]byte, n)
	for i, m := range msgs {
		raw, _ := m.Bytes()
		p := NewProposal(m.MID(), m.Subject(), Wl2kProposal, raw)
		raws[i], zs[i] = raw, p.compressedData
		lines = append(lines, refProposalLine('C', m.MID(), len(raw), len(p.compressedData)))
	}
	var in []byte
	in = append(in, refProposalBlock(lines)...)
	wantAns := "FS "
	for i := range msgs {
		wantAns += string([]byte{byte(pol[i])})
		if pol[i] == Accept {
			in = append(in, refEncodeFrame("subj", 0, zs[i], []int{symInt(1, 2) * 100})...)
		}
	}
	in = append(in, "FF\r"...)
	conn := newVConn(in)
	conn.chunk = symInt(0, 2) * 7 // read segmentation: unlimited, 7, 14 bytes
	h := &recHandler{failAt: -1}
	h.policy = func(p Proposal) ProposalAnswer {
		for i, m := range msgs {
			if m.MID() == p.MID() {
				return pol[i]
			}
		}
		return Defer
	}
	s := newVSession(h, conn, false)
	_, err := s.handleInbound(conn)
	symAssert(err == nil, "handleInbound-ok")
	symAssert(string(conn.out) == wantAns+"\r", "one-answer-per-proposal-in-order")
	k := 0
	for i, m := range msgs {
		if pol[i] != Accept {
			symAssert(count(s.trafficStats.Received, m.MID()) == 0, "stats-do-not-list-untransferred")
			continue
		}
		symAssert(k < len(h.inbound), "accepted-message-delivered")
		got, gerr := h.inbound[k].Bytes()
		symAssert(gerr == nil && bytes.Equal(got, raws[i]), "delivered-bytes-identical-in-order")
		symAssert(count(s.trafficStats.Received, m.MID()) == 1, "stats-list-received-mid-once")
		k++
	}
	symAssert(k == len(h.inbound), "nothing-else-delivered")
	symReach("end")
}

// ---------- two-party run over an in-memory duplex pipe ----------

type pipeEnd struct {
	rx     chan []byte
	tx     chan []byte
	left   []byte
	closed bool
	seg    int
	log    []byte // everything written at this end
}

func newPipe(seg int) (*pipeEnd, *pipeEnd) {
	a2b := make(chan []byte, 4096)
	b2a := make(chan []byte, 4096)
	return &pipeEnd{rx: b2a, tx: a2b, seg: seg}, &pipeEnd{rx: a2b, tx: b2a, seg: seg}
}

func (p *pipeEnd) Read(b []byte) (int, error) {
	if len(p.left) == 0 {
		chunk, ok := <-p.rx
		if !ok {
			return 0, io.EOF
		}
		p.left = chunk
	}
	n := copy(b, p.left)
	p.left = p.left[n:]
	return n, nil
}

func (p *pipeEnd) Write(b []byte) (int, error) {
	if p.closed {
		return 0, io.ErrClosedPipe
	}
	p.log = append(p.log, b...)
	// segmentation of the stream: chunks of at most seg bytes (0 = as written)
	for off := 0; off < len(b); {
		n := len(b) - off
		if p.seg > 0 && n > p.seg {
			n = p.seg
		}
		p.tx <- append([]byte(nil), b[off:off+n]...)
		off += n
	}
	return len(b), nil
}

func (p *pipeEnd) Close() error {
	if !p.closed {
		p.closed = true
		close(p.tx)
	}
	return nil
}
func (p *pipeEnd) LocalAddr() net.Addr                { return vAddr{} }
func (p *pipeEnd) RemoteAddr() net.Addr               { return vAddr{} }
func (p *pipeEnd) SetDeadline(t time.Time) error      { return nil }
func (p *pipeEnd) SetReadDeadline(t time.Time) error  { return nil }
func (p *pipeEnd) SetWriteDeadline(t time.Time) error { return nil }

type exchangeResult struct {
	stats TrafficStats
	err   error
}

// C01 K6: two real Sessions, both Exchange calls to completion.
func H_c01_two_party() {
	NA := symParam("NA", 2)
	NB := symParam("NB", 1)
	gz := symParam("GZIP", 0)
	if gz&1 != 0 {
		// GZIP_EXPERIMENT=1: both stations run in one process, so "on at one
		// side only" is represented by the SID the peer sees (GZIP=3)
		symSetenv("GZIP_EXPERIMENT", "1")
	}
	na := symInt(symParam("NAMIN", 0), NA)
	nb := symInt(0, NB)
	all := c01Msgs(na + nb)
	if symParam("LONGSUBJ", 0) == 1 && len(all) > 0 {
		// the longest subjects Validate admits: 128 bytes of header value, i.e.
		// up to 36 Latin-1 letters once Q-encoded, or 128 ASCII characters
		if symInt(0, 1) == 1 {
			all[0].SetSubject(strings.Repeat("\u00e6", symInt(30, 37)))
		} else {
			all[0].SetSubject(strings.Repeat("x", symInt(126, 129)))
		}
		symAssume(all[0].Validate() == nil)
	}
	aMsgs, bMsgs := all[:na], all[na:]
	polOf := make(map[string]ProposalAnswer)
	if symParam("POLICY", 0) == 1 {
		// four policy patterns instead of every combination
		pat := symInt(0, 3)
		for i, m := range all {
			polOf[m.MID()] = [...][3]ProposalAnswer{{Accept, Accept, Accept}, {Reject, Reject, Reject}, {Defer, Defer, Defer}, {Accept, Reject, Defer}}[pat][i%3]
		}
	} else {
		for _, m := range all {
			polOf[m.MID()] = [...]ProposalAnswer{Accept, Reject, Defer}[symInt(0, 2)]
		}
	}
	ha := &recHandler{failAt: -1, out: aMsgs}
	hb := &recHandler{failAt: -1, out: bMsgs}
	policy := func(p Proposal) ProposalAnswer { return polOf[p.MID()] }
	ha.policy, hb.policy = policy, policy
	// a handler keeps deferred/sent messages out of later GetOutbound calls, like a real mailbox
	ca, cb := newPipe(symInt(0, 1) * 5)
	a := NewSession("N0CALL", "N1CALL", "JP20QE", &sessMbox{recHandler: ha})
	b := NewSession("N1CALL", "N0CALL", "JP20QE", &sessMbox{recHandler: hb})
	a.SetLogger(quietLogger())
	b.SetLogger(quietLogger())
	a.IsMaster(true)
	switch symInt(0, 2) {
	case 1:
		a.SetMOTD("Hello and welcome")
	case 2:
		a.SetMOTD("*** Welcome to the N0CALL mailbox", "*** MTD Stats Total connects = 2580")
	}
	done := make(chan exchangeResult, 1)
	go func() {
		st, err := b.Exchange(cb)
		done <- exchangeResult{st, err}
	}()
	stA, errA := a.Exchange(ca)
	rb := <-done
	symAssert(errA == nil && rb.err == nil, "both-exchanges-return-nil")
	symAssert(ca.closed && cb.closed, "connection-closed")
	if gz&1 != 0 && (bytes.Contains(ca.log, []byte("FD EM ")) || bytes.Contains(cb.log, []byte("FD EM "))) {
		symReach("gzip-proposal")
	}
	check := func(sent []*Message, hs, hr *recHandler, stS, stR TrafficStats) {
		k := 0
		for _, m := range sent {
			mid := m.MID()
			raw, _ := m.Bytes()
			switch polOf[mid] {
			case Accept:
				symAssert(count(hs.sent, mid) == 1 && count(hs.rejected, mid) == 0, "accepted-reported-sent-exactly-once")
				symAssert(count(stS.Sent, mid) == 1 && count(stR.Received, mid) == 1, "traffic-stats-list-transferred-mid")
				n := 0
				for _, im := range hr.inbound {
					if im.MID() == mid {
						got, _ := im.Bytes()
						symAssert(bytes.Equal(got, raw), "delivered-content-byte-identical")
						n++
					}
				}
				symAssert(n == 1, "accepted-delivered-exactly-once")
				k++
			case Reject:
				symAssert(count(hs.rejected, mid) == 1 && count(hs.sent, mid) == 0, "rejected-reported-already-received")
				symAssert(count(stS.Sent, mid) == 0 && count(stR.Received, mid) == 0, "rejected-not-transferred")
			case Defer:
				symAssert(count(hs.deferred, mid) >= 1 && count(hs.sent, mid) == 0 && count(hs.rejected, mid) == 0, "deferred-reported-deferred-stays-pending")
				symAssert(count(stS.Sent, mid) == 0 && count(stR.Received, mid) == 0, "deferred-not-transferred")
			}
		}
		symAssert(len(hr.inbound) == k, "nothing-else-delivered")
	}
	check(aMsgs, ha, hb, stA, rb.stats)
	check(bMsgs, hb, ha, rb.stats, stA)
	symReach("end")
}

// sessMbox wraps the recording handler with the bookkeeping every real mailbox
// does: a message reported sent/rejected/deferred is not offered again in the
// same session.
type sessMbox struct {
	*recHandler
}

func (m *sessMbox) GetOutbound(fw ...Address) []*Message {
	var out []*Message
	for _, msg := range m.recHandler.out {
		mid := msg.MID()
		if count(m.sent, mid)+count(m.rejected, mid)+count(m.deferred, mid) > 0 {
			continue
		}
		out = append(out, msg)
	}
	return out
}
