package fbb

// C03: no byte sequence from the remote can crash, hang or exhaust a session.
// Unit-level harnesses; every Go run-time panic, explicit panic, unwinding
// failure and over-limit allocation is a violation.

// cleanString / errLine on every string of up to L bytes
func H_c03_cleanString() {
	L := symParam("L", 3)
	n := symInt(0, L)
	s := symString(n)
	r := cleanString(s)
	_ = errLine(r)
	symAssert(len(r) <= len(s), "clean-never-grows")
	symReach("end")
}

// one fully symbolic protocol line (L bytes, then CR, then EOF) into handleInbound
func H_c03_inbound_line() {
	L := symParam("L", 4)
	n := symInt(1, L)
	line := symBytes(n)
	for _, c := range line {
		symAssume(c != '\r')
	}
	in := append(append([]byte(nil), line...), '\r')
	conn := newVConn(in)
	h := &recHandler{failAt: -1}
	s := newVSession(h, conn, false)
	_, err := s.handleInbound(conn)
	_ = err
	symReach("end")
}

// every answer string of up to L bytes against 1..P proposals
func H_c03_parse_answer() {
	L := symParam("L", 4)
	P := symParam("P", 2)
	np := symInt(1, P)
	props := make([]*Proposal, np)
	for i := range props {
		props[i] = &Proposal{mid: "MID", code: Wl2kProposal}
	}
	n := symInt(0, L)
	str := "FS " + symString(n)
	err := parseProposalAnswer(str, props, nil)
	if err == nil {
		for _, p := range props {
			symAssert(p.offset >= 0, "offset-non-negative")
			symAssert(p.offset <= ProtocolOffsetSizeLimit, "offset-within-protocol-limit")
		}
	}
	symReach("end")
}

// handshake reader: one fully symbolic line of up to L bytes (template prefix
// selected by T), followed by a conforming SID + prompt, in master and slave role
func H_c03_handshake() {
	L := symParam("L", 3)
	prefix := [...]string{"", ";PQ", ";FW", "[", ";"}[symInt(0, 4)]
	n := symInt(0, L)
	line := symBytes(n)
	for _, c := range line {
		symAssume(c != '\r')
	}
	master := symInt(0, 1) == 1
	var in []byte
	in = append(in, prefix...)
	in = append(in, line...)
	in = append(in, '\r')
	if symInt(0, 1) == 1 {
		in = append(in, "[WL2K-5.0-B2FWIHJM$]\rCMS>\r"...)
	}
	conn := newVConn(in)
	s := newVSession(&recHandler{failAt: -1}, conn, master)
	s.SetSecureLoginHandleFunc(func(addr Address) (string, error) { return "pw", nil })
	err := s.handshake(conn)
	_ = err
	symReach("end")
}

// frame reader: fully symbolic stream of up to L bytes
func H_c03_read_compressed() {
	L := symParam("L", 6)
	n := symInt(0, L)
	in := symBytes(n)
	conn := newVConn(in)
	s := newVSession(&recHandler{failAt: -1}, conn, false)
	p := &Proposal{code: Wl2kProposal, mid: "MID", compressedSize: symInt(0, 2)}
	err := s.readCompressed(conn, p)
	if err == nil {
		symReach("accepted")
		symAssert(len(p.compressedData) == p.compressedSize, "accepted-frame-has-declared-size")
	}
	symReach("end")
}

// decompression + message parse of an accepted proposal whose payload is arbitrary
func H_c03_proposal_message() {
	L := symParam("L", 7)
	n := symInt(0, L)
	data := symBytes(n)
	p := &Proposal{code: Wl2kProposal, mid: "MID", compressedData: data, compressedSize: n}
	switch symParam("GZ", 0) {
	case 1: // gzip proposal (GZIP_EXPERIMENT), arbitrary bytes
		p.code = GzipProposal
		for i := 4; i < 8 && i < n; i++ {
			symAssume(data[i] == 0) // MTIME only feeds time.Unix: pinned
		}
		for i := 10; i < 12 && i < n; i++ {
			symAssume(data[i] == 0 || data[i] == 1 || data[i] == 0xff) // XLEN (a make size when FEXTRA is set): boundary values
		}
	case 2: // gzip proposal: a well-formed gzip member header, then arbitrary deflate bytes
		p.code = GzipProposal
		p.compressedData = append([]byte{0x1f, 0x8b, 8, 0, 0, 0, 0, 0, 0, 0xff}, data...)
		p.compressedSize = len(p.compressedData)
	}
	symLimitAlloc(1 << 20)
	m, err := p.Message()
	_, _ = m, err
	symReach("end")
}

// message parser: Body:/File: sizes with symbolic characters
func H_c03_message_sizes() {
	L := symParam("L", 3)
	n := symInt(1, L)
	num := symBytes(n)
	for _, c := range num {
		symAssume(c != '\r' && c != '\n')
		if symParam("ALPHA", 1) == 1 {
			// boundary alphabet (pins the byte, so the size arithmetic runs concretely)
			symAssume(c == '0' || c == '1' || c == '5' || c == '9' || c == '-' || c == '+' || c == ' ' || c == 'a' || c == 0x80)
		}
	}
	field := [...]string{"Body: ", "File: "}[symInt(0, 1)]
	nines := symInt(0, 1) * symParam("NINES", 7) // optional run of leading 9s: sizes up to 10^(NINES+L)
	var in []byte
	in = append(in, "Mid: ABC\r\nDate: 2016/01/01 00:00\r\n"...)
	in = append(in, field...)
	for i := 0; i < nines; i++ {
		in = append(in, '9')
	}
	in = append(in, num...)
	if field == "File: " {
		// with a name, without any separator, or with a TAB instead of the blank
		in = append(in, [...]string{" a.txt", "", "\ta.txt", " "}[symInt(0, 3)]...)
		in = append(in, "\r\nBody: 1"...)
	}
	if field == "File: " {
		in = append(in, "\r\n\r\nx\r\nabc\r\n"...) // a well-formed one-byte body, then the file section
	} else {
		in = append(in, "\r\n\r\nxyz\r\n"...)
	}
	symLimitAlloc(1 << 16)
	m := new(Message)
	err := m.ReadFrom(&sliceReader{b: in})
	_ = err
	symReach("end")
}

// outbound side: the remote's answer controls the offset into our data
func H_c03_send_offset() {
	L := symParam("L", 4)
	n := symInt(1, L)
	ans := symBytes(n)
	for _, c := range ans {
		symAssume(c != '\r')
	}
	var in []byte
	in = append(in, "FS "...)
	in = append(in, ans...)
	in = append(in, "\rFF\r"...)
	conn := newVConn(in)
	h := &recHandler{failAt: -1}
	s := newVSession(h, conn, true)
	data := []byte{1, 2, 3, 4, 5, 6, 7, 8, 9, 10, 11, 12}
	prop := &Proposal{code: Wl2kProposal, msgType: "EM", mid: "MIDMIDMIDMID", title: "t", size: 20, compressedData: data, compressedSize: len(data)}
	_, err := s.sendOutbound(conn, []*Proposal{prop})
	_ = err
	symReach("end")
}

// whole inbound path with a valid tiny message whose proposal line announces
// boundary values for the (never validated) sizes
func H_c03_inbound_sizes() {
	m := mkMsg("ABCDEFGHIJKL", "s", "hello\r\n")
	raw, _ := m.Bytes()
	p := NewProposal("ABCDEFGHIJKL", "s", Wl2kProposal, raw)
	usizes := [...]string{"-1", "0", "268435456", "2147483647", "99999999999999999", "x"}
	usize := usizes[symInt(0, len(usizes)-1)]
	line := "FC EM ABCDEFGHIJKL " + usize + " " + refItoa(len(p.compressedData)) + " 0"
	var in []byte
	in = append(in, refProposalBlock([]string{line})...)
	in = append(in, refEncodeFrame("s", 0, p.compressedData, nil)...)
	in = append(in, "FF\r"...)
	conn := newVConn(in)
	h := &recHandler{failAt: -1}
	s := newVSession(h, conn, false)
	symLimitAlloc(1 << 22)
	_, err := s.handleInbound(conn)
	_ = err
	symReach("end")
}

// a peer that ignores the limit of five proposals per block: six to eight FC
// lines with a correct F> checksum, then whatever the answer calls for is not
// sent (the input ends).  Exchange's receiving half returns; no panic.
func H_c03_many_proposals() {
	symBudget(300000000)
	n := symInt(6, symParam("N", 7))
	var lines []string
	for i := 0; i < n; i++ {
		m := mkMsg(c01MIDs[i], "s", "b\r\n")
		raw, _ := m.Bytes()
		p := NewProposal(m.MID(), m.Subject(), Wl2kProposal, raw)
		lines = append(lines, refProposalLine('C', m.MID(), len(raw), len(p.compressedData)))
	}
	in := refProposalBlock(lines)
	conn := newVConn(in)
	h := &recHandler{failAt: -1}
	pat := symInt(0, 2)
	k := 0
	h.policy = func(p Proposal) ProposalAnswer {
		k++
		return [...][3]ProposalAnswer{{Accept, Accept, Accept}, {Reject, Reject, Reject}, {Accept, Reject, Defer}}[pat][k%3]
	}
	s := newVSession(h, conn, false)
	_, err := s.handleInbound(conn)
	_ = err
	symReach("end")
}
