package fbb

import (
	"time"
	"bytes"
	"strings"
)

type chunkedReader struct {
	b      []byte
	chunks []int
	i      int
}

func (r *chunkedReader) Read(p []byte) (int, error) {
	if len(r.b) == 0 {
		return 0, ioEOF
	}
	n := len(r.b)
	if r.i < len(r.chunks) && r.chunks[r.i] < n {
		n = r.chunks[r.i]
	}
	r.i++
	if n > len(p) {
		n = len(p)
	}
	copy(p, r.b[:n])
	r.b = r.b[n:]
	return n, nil
}

// C09 K1: section framing round trip and canonical re-serialisation
func H_c09_sections() {
	B := symParam("B", 3)
	F := symParam("F", 2)
	m := mkMsg("ABCDEFGHIJKL", "subject", "")
	body := symBytes(symInt(0, B)) // arbitrary bytes incl. CR, LF, NUL
	m.body = body
	m.Header.Set(HEADER_BODY, refItoa(len(body)))
	nf := symInt(0, F)
	names := [...]string{"a.txt", "second file.bin"}
	var datas [][]byte
	for i := 0; i < nf; i++ {
		d := symBytes(symInt(0, 2))
		datas = append(datas, d)
		m.AddFile(NewFile(names[i], d))
	}
	raw, err := m.Bytes()
	symAssert(err == nil, "serialise-ok")
	// CRLF after the body iff there are attachments
	hdrEnd := bytes.Index(raw, []byte("\r\n\r\n")) + 4
	rest := raw[hdrEnd:]
	wantLen := len(body)
	if nf > 0 {
		wantLen += 2
		for _, d := range datas {
			wantLen += len(d) + 2
		}
	}
	symAssert(len(rest) == wantLen, "body-then-CRLF-terminated-file-sections (CRLF after the body iff files exist)")

	// parse through a reader that returns the data in chunks
	c1 := symInt(1, 3)
	split := hdrEnd - 2 + symInt(0, 4) // a second chunk boundary around the header/body border
	var parsed Message
	err = parsed.ReadFrom(&chunkedReader{b: append([]byte(nil), raw...), chunks: []int{c1, split, 1, 2}})
	symAssert(err == nil, "parse-ok")
	symAssert(bytes.Equal(parsed.body, body), "body-identical")
	symAssert(len(parsed.Files()) == nf, "file-count")
	for i, f := range parsed.Files() {
		symAssert(f.err == nil, "file-section-ok")
		symAssert(f.Name() == names[i], "file-name-identical")
		symAssert(bytes.Equal(f.Data(), datas[i]), "file-data-identical")
	}
	for _, k := range []string{HEADER_MID, HEADER_DATE, HEADER_FROM, HEADER_TO, HEADER_SUBJECT, HEADER_BODY, HEADER_TYPE, HEADER_MBO} {
		symAssert(parsed.Header.Get(k) == m.Header.Get(k), "header-identical")
	}
	again, err := parsed.Bytes()
	symAssert(err == nil && bytes.Equal(again, raw), "re-serialising-the-parsed-message-yields-the-same-bytes")
	symReach("end")
}

// C09 K2: canonical header form — Mid first, other keys sorted, values trimmed
func H_c09_header() {
	h := make(Header)
	h.Set(HEADER_MID, "MID1")
	n := symInt(1, symParam("K", 2))
	keys := make([]string, n)
	for i := range keys {
		c := symByte()
		symAssume(c >= 'a' && c <= 'z')
		keys[i] = "X-" + string([]byte{c - 32}) // canonical MIME form: X-A .. X-Z
		v := "v" + refItoa(i)
		if symInt(0, 1) == 1 {
			v = " " + v + " \t"
		}
		h.Add(keys[i], v)
	}
	var buf bytes.Buffer
	err := h.Write(&buf)
	symAssert(err == nil, "header-write-ok")
	lines := strings.Split(strings.TrimSuffix(buf.String(), "\r\n"), "\r\n")
	symAssert(lines[0] == "Mid: MID1", "mid-first")
	symAssert(len(lines) == n+1, "one-line-per-value")
	for i := 1; i < len(lines); i++ {
		if i > 1 {
			symAssert(lines[i-1][:3] <= lines[i][:3], "keys-sorted")
		}
		symAssert(!strings.HasSuffix(lines[i], " ") && !strings.HasSuffix(lines[i], "\t") && !strings.Contains(lines[i], ":  "), "values-trimmed")
	}
	symReach("end")
}

// C09 K3: subject and attachment names survive the RFC 2047 word coding
func H_c09_words() {
	N := symParam("N", 2)
	n := symInt(1, N)
	s := ""
	for i := 0; i < n; i++ {
		s += c18SymLatin1Printable()
	}
	// header values are stored trimmed: leading/trailing blanks are not representable
	symAssume(s[0] != ' ' && s[len(s)-1] != ' ')
	m := mkMsg("ABCDEFGHIJKL", "x", "body\r\n")
	m.SetSubject(s)
	enc := m.Header.Get(HEADER_SUBJECT)
	for i := 0; i < len(enc); i++ {
		symAssert(enc[i] < 0x80, "encoded-subject-is-ascii")
	}
	symAssert(m.Subject() == s, "subject-accessor-returns-what-was-set")
	// attachment name through a serialise/parse round trip
	name := s + ".txt"
	m.AddFile(NewFile(name, []byte("d")))
	raw, err := m.Bytes()
	symAssert(err == nil, "serialise-ok")
	var parsed Message
	symAssert(parsed.ReadFrom(bytes.NewReader(raw)) == nil, "parse-ok")
	symAssert(len(parsed.Files()) == 1 && parsed.Files()[0].Name() == name, "attachment-name-round-trips")
	symAssert(parsed.Subject() == s, "subject-round-trips")
	symReach("end")
}

// C09 K4: address normalisation for the three documented forms
func H_c09_address() {
	L := symParam("L", 3)
	n := symInt(1, L)
	call := make([]byte, n)
	for i := range call {
		c := symByte()
		symAssume((c >= 'a' && c <= 'z') || (c >= 'A' && c <= 'Z') || (c >= '0' && c <= '9') || c == '-')
		call[i] = c
	}
	up := strings.ToUpper(string(call))
	switch symInt(0, 3) {
	case 0: // short winlink address
		a := AddressFromString(string(call))
		symAssert(a.Proto == "" && a.Addr == up, "callsign-upper-cased")
		symAssert(a.String() == up && AddressFromString(a.String()) == a, "string-form-round-trips")
	case 1: // full winlink address, domain in any case
		dom := [...]string{"winlink.org", "WINLINK.ORG", "WinLink.Org", "winlink.ORG"}[symInt(0, 3)]
		a := AddressFromString(string(call) + "@" + string(dom))
		symAssert(a.Proto == "" && a.Addr == up, "winlink-domain-stripped-any-case")
	case 2: // SMTP form, including domains that merely contain "winlink.org"
		dom := [...]string{"example.com", "mywinlink.org", "winlink.org.no", "sub.winlink.org", "WINLINK.ORGA"}[symInt(0, 4)]
		a := AddressFromString(string(call) + "@" + dom)
		symAssert(a.Proto == "SMTP" && a.Addr == string(call)+"@"+dom, "smtp-form-preserved")
		symAssert(a.String() == "SMTP:"+string(call)+"@"+dom && AddressFromString(a.String()) == a, "string-form-round-trips")
	case 3: // explicit protocol prefix
		a := AddressFromString("SMTP:" + string(call) + "@example.com")
		symAssert(a.Proto == "SMTP" && a.Addr == string(call)+"@example.com", "explicit-proto-preserved")
	}
	// and through a message
	m := mkMsg("ABCDEFGHIJKL", "s", "b\r\n")
	m.Header.Del(HEADER_TO)
	m.AddTo(string(call))
	m.AddCc(string(call) + "@example.com")
	symAssert(len(m.To()) == 1 && m.To()[0].Addr == up, "To-accessor")
	symAssert(len(m.Cc()) == 1 && m.Cc()[0].Proto == "SMTP", "Cc-accessor")
	symAssert(len(m.Receivers()) == 2, "receivers")
	symReach("end")
}

func two(n int) string { return string([]byte{byte('0' + n/10%10), byte('0' + n%10)}) }

// C09 K5: the date accessor at minute resolution.  A calendar instant from a
// boundary grid, given in UTC or in a fixed zone, is set with SetDate: the
// header holds the UTC wall clock in the Winlink layout (written here digit by
// digit, not through time.Format), Date() returns the same instant, and the
// message survives a serialise/parse round trip with the date intact.  The
// other layouts ParseDate documents yield the same instant.
func H_c09_date() {
	year := [...]int{1970, 1999, 2000, 2016, 2024, 2038, 2100}[symInt(0, 6)]
	md := [...][2]int{{1, 1}, {2, 28}, {2, 29}, {3, 1}, {6, 30}, {12, 31}}[symInt(0, 5)]
	hm := [...][2]int{{0, 0}, {0, 59}, {9, 5}, {12, 30}, {23, 59}}[symInt(0, 4)]
	leap := year%4 == 0 && (year%100 != 0 || year%400 == 0)
	symAssume(!(md[0] == 2 && md[1] == 29 && !leap))
	utc := time.Date(year, time.Month(md[0]), md[1], hm[0], hm[1], 0, 0, time.UTC)
	want := refItoa(year) + "/" + two(md[0]) + "/" + two(md[1]) + " " + two(hm[0]) + ":" + two(hm[1])
	t := utc
	switch symInt(0, 2) {
	case 1:
		t = utc.In(time.FixedZone("east", 2*3600))
	case 2:
		t = utc.In(time.FixedZone("west", -(5*3600 + 30*60)))
	}
	if symInt(0, 1) == 1 {
		t = t.Add(59*time.Second + 999*time.Millisecond) // seconds are not representable: truncated
	}
	// the process's local zone must not matter
	if symInt(0, 1) == 1 {
		saved := time.Local
		time.Local = time.FixedZone("verif", 5*3600+30*60)
		defer func() { time.Local = saved }()
	}
	m := mkMsg("ABCDEFGHIJKL", "s", "body\r\n")
	m.SetDate(t)
	symAssert(m.Header.Get(HEADER_DATE) == want, "date-header-is-the-utc-wall-clock-in-winlink-layout")
	symAssert(m.Date().Equal(utc), "date-accessor-returns-what-was-set (minute resolution)")
	raw, err := m.Bytes()
	symAssert(err == nil, "serialise-ok")
	back := new(Message)
	symAssert(back.ReadFrom(bytes.NewReader(raw)) == nil, "parse-ok")
	symAssert(back.Date().Equal(utc) && back.Header.Get(HEADER_DATE) == want, "date-survives-the-round-trip")
	// the undocumented layouts seen in the field
	alt := [...]string{
		refItoa(year) + "." + two(md[0]) + "." + two(md[1]) + " " + two(hm[0]) + ":" + two(hm[1]),
		refItoa(year) + "-" + two(md[0]) + "-" + two(md[1]) + " " + two(hm[0]) + ":" + two(hm[1]),
		refItoa(year) + two(md[0]) + two(md[1]) + two(hm[0]) + two(hm[1]) + "00",
	}[symInt(0, 2)]
	d, err := ParseDate(alt)
	symAssert(err == nil && d.Equal(utc), "alternative-layouts-parse-to-the-same-instant")
	symReach("end")
}

// C09 K3b: control characters inside a subject or attachment name — with and
// without a non-ASCII character next to them (a purely ASCII value with a line
// break must not reach the header block raw: header injection)
func H_c09_words_ctrl() {
	ctrl := [...]string{"\n", "\r", "\r\n", "\t", "\x7f", "\x01"}[symInt(0, 5)]
	left := "a"
	if symInt(0, 1) == 1 {
		left = c18SymLatin1Printable()
		symAssume(left != " ")
	}
	s := left + ctrl + [...]string{"b", "X-Injected: 1", "æ"}[symInt(0, 2)]
	m := mkMsg("ABCDEFGHIJKL", "x", "body\r\n")
	m.SetSubject(s)
	symAssert(m.Subject() == s, "subject-accessor-returns-what-was-set")
	name := s + ".txt"
	m.AddFile(NewFile(name, []byte("d")))
	raw, err := m.Bytes()
	symAssert(err == nil, "serialise-ok")
	var parsed Message
	symAssert(parsed.ReadFrom(bytes.NewReader(raw)) == nil, "parse-ok")
	symAssert(parsed.Header.Get("X-Injected") == "", "no-header-injected-by-a-line-break-in-a-value")
	symAssert(parsed.Subject() == s, "subject-round-trips")
	symAssert(len(parsed.Files()) == 1 && parsed.Files()[0].Name() == name, "attachment-name-round-trips")
	raw2, err := parsed.Bytes()
	symAssert(err == nil && bytes.Equal(raw, raw2), "re-serialising-yields-the-same-bytes")
	symReach("end")
}

// C09 K3c: long subjects and attachment names (beyond any line-folding
// threshold) with blanks — single and doubled — at symbolic positions
func H_c09_long_values() {
	total := [...]int{70, 76, 78, 80, 100, 120}[symInt(0, 5)]
	gap := [...]string{" ", "  ", " \t "}[symInt(0, 2)]
	at := total - 10 + symInt(0, 9) // position of the gap near the end ...
	if symInt(0, 1) == 1 {
		at = 60 + symInt(0, 19) // ... or around typical fold columns
	}
	symAssume(at > 0 && at < total-len(gap))
	s := strings.Repeat("a", at) + gap + strings.Repeat("b", total-at-len(gap))
	m := mkMsg("ABCDEFGHIJKL", "x", "body\r\n")
	m.SetSubject(s)
	symAssert(m.Subject() == s, "subject-accessor-returns-what-was-set")
	name := s + ".txt"
	m.AddFile(NewFile(name, []byte("d")))
	raw, err := m.Bytes()
	symAssert(err == nil, "serialise-ok")
	var parsed Message
	symAssert(parsed.ReadFrom(bytes.NewReader(raw)) == nil, "parse-ok")
	symAssert(parsed.Subject() == s, "subject-round-trips")
	symAssert(len(parsed.Files()) == 1 && parsed.Files()[0].Name() == name, "attachment-name-round-trips")
	raw2, err := parsed.Bytes()
	symAssert(err == nil && bytes.Equal(raw, raw2), "re-serialising-yields-the-same-bytes")
	symReach("end")
}
