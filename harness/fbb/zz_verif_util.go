package fbb

import (
	"bufio"
	"errors"
	"io"
	"io/ioutil"
	"log"
	"net"
	"time"
)

// ---------- in-memory connection ----------

type vAddr struct{}

func (vAddr) Network() string { return "verif" }
func (vAddr) String() string  { return "verif" }

// vConn delivers a scripted inbound byte string and records everything written.
type vConn struct {
	in      []byte
	pos     int
	out     []byte
	closed  int
	chunk   int   // max bytes per Read (0 = everything available)
	failAt  int   // writes fail once this many bytes were accepted (-1 = never)
	readsAt []int // len(out) at the time of each Read call
}

func newVConn(in []byte) *vConn { return &vConn{in: in, failAt: -1} }

var errVConnWrite = errors.New("verif: write on broken link")

func (c *vConn) Read(p []byte) (int, error) {
	if c.pos >= len(c.in) {
		return 0, io.EOF
	}
	n := len(c.in) - c.pos
	if n > len(p) {
		n = len(p)
	}
	if c.chunk > 0 && n > c.chunk {
		n = c.chunk
	}
	copy(p, c.in[c.pos:c.pos+n])
	c.pos += n
	return n, nil
}

func (c *vConn) Write(p []byte) (int, error) {
	if c.failAt >= 0 {
		room := c.failAt - len(c.out)
		if room < len(p) {
			if room < 0 {
				room = 0
			}
			c.out = append(c.out, p[:room]...)
			return room, errVConnWrite
		}
	}
	c.out = append(c.out, p...)
	return len(p), nil
}

func (c *vConn) Close() error                       { c.closed++; return nil }
func (c *vConn) LocalAddr() net.Addr                { return vAddr{} }
func (c *vConn) RemoteAddr() net.Addr               { return vAddr{} }
func (c *vConn) SetDeadline(t time.Time) error      { return nil }
func (c *vConn) SetReadDeadline(t time.Time) error  { return nil }
func (c *vConn) SetWriteDeadline(t time.Time) error { return nil }

// ---------- recording mailbox handler ----------

type recHandler struct {
	out      []*Message
	policy   func(p Proposal) ProposalAnswer
	failAt   int // ProcessInbound call index that fails (-1 never)
	inbound  []*Message
	sent     []string
	rejected []string
	deferred []string
	nProcess int
	prepared int
	events   []string
	gotFW    [][]Address
}

var errStore = errors.New("verif: storage error")

func (h *recHandler) Prepare() error { h.prepared++; return nil }
func (h *recHandler) GetOutbound(fw ...Address) []*Message {
	h.gotFW = append(h.gotFW, fw)
	return h.out
}
func (h *recHandler) SetSent(mid string, rejected bool) {
	if rejected {
		h.rejected = append(h.rejected, mid)
	} else {
		h.sent = append(h.sent, mid)
	}
	h.events = append(h.events, "sent:"+mid)
}
func (h *recHandler) SetDeferred(mid string) { h.deferred = append(h.deferred, mid) }
func (h *recHandler) ProcessInbound(msgs ...*Message) error {
	i := h.nProcess
	h.nProcess++
	if i == h.failAt {
		return errStore
	}
	h.inbound = append(h.inbound, msgs...)
	return nil
}
func (h *recHandler) GetInboundAnswer(p Proposal) ProposalAnswer {
	if h.policy != nil {
		return h.policy(p)
	}
	return Accept
}

// ---------- session construction without Exchange ----------

func quietLogger() *log.Logger { return log.New(ioutil.Discard, "", 0) }

func newVSession(h MBoxHandler, conn *vConn, master bool) *Session {
	s := NewSession("N0CALL", "N1CALL", "JP20QE", h)
	s.SetLogger(quietLogger())
	s.master = master
	s.rd = bufio.NewReader(conn)
	return s
}

func count(list []string, s string) int {
	n := 0
	for _, x := range list {
		if x == s {
			n++
		}
	}
	return n
}

func bytesEq(a, b []byte) bool {
	if len(a) != len(b) {
		return false
	}
	for i := range a {
		if a[i] != b[i] {
			return false
		}
	}
	return true
}

func bufioReader(c *vConn) *bufio.Reader { return bufio.NewReader(c) }

var ioEOF = io.EOF

func symAlnum() byte {
	b := symByte()
	symAssume((b >= 'A' && b <= 'Z') || (b >= '0' && b <= '9'))
	return b
}

func symMID(n int) string {
	b := make([]byte, n)
	for i := range b {
		b[i] = symAlnum()
	}
	return string(b)
}

func eqFoldHex(a, b byte) bool {
	if a >= 'a' && a <= 'f' {
		a -= 32
	}
	if b >= 'a' && b <= 'f' {
		b -= 32
	}
	return a == b
}

func chunkList(n, size int) []int {
	var c []int
	for n > 0 {
		k := size
		if n < k {
			k = n
		}
		c = append(c, k)
		n -= k
	}
	return c
}

type sliceReader struct {
	b   []byte
	pos int
}

func (r *sliceReader) Read(p []byte) (int, error) {
	if r.pos >= len(r.b) {
		return 0, ioEOF
	}
	n := copy(p, r.b[r.pos:])
	r.pos += n
	return n, nil
}

// one Latin-1 representable character, symbolic: any ASCII byte (including
// CR, LF, NUL) or a two-byte UTF-8 sequence for U+0080..U+00FF
func c18SymChar() string {
	if symInt(0, 1) == 0 {
		b := symByte()
		symAssume(b < 0x80)
		return string([]byte{b})
	}
	lead, cont := symByte(), symByte()
	symAssume(lead == 0xc2 || lead == 0xc3)
	symAssume(cont >= 0x80 && cont <= 0xbf)
	return string([]byte{lead, cont})
}

// printable Latin-1: U+0020..U+007E or U+00A0..U+00FF, symbolic
func c18SymLatin1Printable() string {
	if symInt(0, 1) == 0 {
		b := symByte()
		symAssume(b >= 0x20 && b < 0x7f)
		return string([]byte{b})
	}
	lead, cont := symByte(), symByte()
	symAssume((lead == 0xc2 && cont >= 0xa0 && cont <= 0xbf) || (lead == 0xc3 && cont >= 0x80 && cont <= 0xbf))
	return string([]byte{lead, cont})
}

func mkMsg(mid, subject, body string) *Message {
	m := &Message{Header: make(Header)}
	m.Header.Set(HEADER_MID, mid)
	m.Header.Set(HEADER_DATE, "2016/01/01 00:00")
	m.Header.Set(HEADER_TYPE, "Private")
	m.Header.Set(HEADER_FROM, "N0CALL")
	m.Header.Set(HEADER_TO, "N1CALL")
	m.Header.Set(HEADER_SUBJECT, subject)
	m.Header.Set(HEADER_MBO, "N0CALL")
	m.body = []byte(body)
	m.Header.Set(HEADER_BODY, refItoa(len(body)))
	return m
}

var c01MIDs = [...]string{"AAAAAAAAAAA1", "bBbBbBbBbBb2", "CCCCCCCCCCC3", "DDDDDDDDDDD4", "eeeeeeeeeee5", "FFFFFFFFFFF6",
	"GGGGGGGGGGG7", "HHHHHHHHHHH8", "IIIIIIIIIII9", "JJJJJJJJJJ10", "KKKKKKKKKK11", "LLLLLLLLLL12"}

func c01Msgs(n int) []*Message {
	var out []*Message
	for i := 0; i < n; i++ {
		body := "body " + c01MIDs[i] + "\r\n"
		for j := 0; j < i; j++ {
			body += "more text to make sizes differ\r\n"
		}
		if i == 2 {
			// an incompressible payload (JPEG/ZIP-like): the compressed form is larger than the message
			x := uint32(12345)
			b := make([]byte, 700)
			for k := range b {
				x = x*1664525 + 1013904223
				b[k] = byte(0x21 + (x>>16)%0xdd)
			}
			body = string(b) + "\r\n"
		}
		out = append(out, mkMsg(c01MIDs[i], "subj"+refItoa(i), body))
	}
	return out
}

var c16LastMD5Arg []byte
var c16Digest [16]byte

// MD5 is an uninterpreted function under the engine: the digest is 16 fresh
// symbolic bytes (so bytes 0..3 range over all 2^32 values), the argument is
// recorded.
//
//verif:stub(H_c16_response,H_c03_handshake) crypto/md5.Sum = stubMD5
func stubMD5(data []byte) [16]byte {
	c16LastMD5Arg = append([]byte(nil), data...)
	var d [16]byte
	for i := range d {
		d[i] = symByte()
	}
	c16Digest = d
	return d
}
