package fbb

import (
	"bufio"
	"errors"
	"io"
	"io/ioutil"
	"log"
	"net"
	"time"
)

// ---------- in-memory connection ----------

type vAddr struct{}

func (vAddr) Network() string { return "verif" }
func (vAddr) String() string  { return "verif" }

// vConn delivers a scripted inbound byte string and records everything written.
type vConn struct {
	in      []byte
	pos     int
	out     []byte
	closed  int
	chunk   int // max bytes per Read (0 = everything available)
	failAt  int // writes fail once this many bytes were accepted (-1 = never)
	readsAt []int // len(out) at the time of each Read call
}

func newVConn(in []byte) *vConn { return &vConn{in: in, failAt: -1} }

var errVConnWrite = errors.New("verif: write on broken link")

func (c *vConn) Read(p []byte) (int, error) {
	if c.pos >= len(c.in) {
		return 0, io.EOF
	}
	n := len(c.in) - c.pos
	if n > len(p) {
		n = len(p)
	}
	if c.chunk > 0 && n > c.chunk {
		n = c.chunk
	}
	copy(p, c.in[c.pos:c.pos+n])
	c.pos += n
	return n, nil
}

func (c *vConn) Write(p []byte) (int, error) {
	if c.failAt >= 0 {
		room := c.failAt - len(c.out)
		if room < len(p) {
			if room < 0 {
				room = 0
			}
			c.out = append(c.out, p[:room]...)
			return room, errVConnWrite
		}
	}
	c.out = append(c.out, p...)
	return len(p), nil
}

func (c *vConn) Close() error                       { c.closed++; return nil }
func (c *vConn) LocalAddr() net.Addr                { return vAddr{} }
func (c *vConn) RemoteAddr() net.Addr               { return vAddr{} }
func (c *vConn) SetDeadline(t time.Time) error      { return nil }
func (c *vConn) SetReadDeadline(t time.Time) error  { return nil }
func (c *vConn) SetWriteDeadline(t time.Time) error { return nil }

// ---------- recording mailbox handler ----------

type recHandler struct {
	out       []*Message
	policy    func(p Proposal) ProposalAnswer
	failAt    int // ProcessInbound call index that fails (-1 never)
	inbound   []*Message
	sent      []string
	rejected  []string
	deferred  []string
	nProcess  int
	prepared  int
	events    []string
	gotFW     [][]Address
}

var errStore = errors.New("verif: storage error")

func (h *recHandler) Prepare() error { h.prepared++; return nil }
func (h *recHandler) GetOutbound(fw ...Address) []*Message {
	h.gotFW = append(h.gotFW, fw)
	return h.out
}
func (h *recHandler) SetSent(mid string, rejected bool) {
	if rejected {
		h.rejected = append(h.rejected, mid)
	} else {
		h.sent = append(h.sent, mid)
	}
	h.events = append(h.events, "sent:"+mid)
}
func (h *recHandler) SetDeferred(mid string) { h.deferred = append(h.deferred, mid) }
func (h *recHandler) ProcessInbound(msgs ...*Message) error {
	i := h.nProcess
	h.nProcess++
	if i == h.failAt {
		return errStore
	}
	h.inbound = append(h.inbound, msgs...)
	return nil
}
func (h *recHandler) GetInboundAnswer(p Proposal) ProposalAnswer {
	if h.policy != nil {
		return h.policy(p)
	}
	return Accept
}

// ---------- session construction without Exchange ----------

func quietLogger() *log.Logger { return log.New(ioutil.Discard, "", 0) }

func newVSession(h MBoxHandler, conn *vConn, master bool) *Session {
	s := NewSession("N0CALL", "N1CALL", "JP20QE", h)
	s.SetLogger(quietLogger())
	s.master = master
	s.rd = bufio.NewReader(conn)
	return s
}

func count(list []string, s string) int {
	n := 0
	for _, x := range list {
		if x == s {
			n++
		}
	}
	return n
}

func bytesEq(a, b []byte) bool {
	if len(a) != len(b) {
		return false
	}
	for i := range a {
		if a[i] != b[i] {
			return false
		}
	}
	return true
}

func bufioReader(c *vConn) *bufio.Reader { return bufio.NewReader(c) }
