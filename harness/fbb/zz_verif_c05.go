package fbb

import (
	"bytes"
	"strings"
)

// C05 K1: emitted proposal block = reference block (lines, CR, two-hex-digit
// two's-complement checksum), at most five proposals, in the given order.
func H_c05_emit_proposals() {
	N := symParam("N", 3)
	n := symInt(1, N)
	M := symParam("MIDLEN", 2)
	props := make([]*Proposal, n)
	var lines []string
	for i := range props {
		mid := symMID(M)
		usize := symInt(0, 1)*99990 + 10 // 10 or 100000: one- and multi-digit sizes
		data := make([]byte, 6+i)
		props[i] = &Proposal{code: Wl2kProposal, msgType: "EM", mid: mid, title: "t", size: usize, compressedData: data, compressedSize: len(data)}
		if i < 5 {
			lines = append(lines, refProposalLine('C', mid, usize, len(data)))
		}
	}
	k := n
	if k > 5 {
		k = 5
	}
	in := []byte("FS " + strings.Repeat("-", k) + "\r")
	conn := newVConn(in)
	s := newVSession(&recHandler{failAt: -1}, conn, true)
	_, err := s.sendOutbound(conn, props)
	symAssert(err == nil, "sendOutbound-ok")
	want := refProposalBlock(lines)
	got := conn.out
	symAssert(len(got) == len(want), "proposal-block-length")
	same := true
	for i := range want {
		if i >= len(want)-3 && i < len(want)-1 {
			same = same && eqFoldHex(got[i], want[i])
		} else {
			same = same && got[i] == want[i]
		}
	}
	symAssert(same, "proposal-block-bytes-conform (lines, CR, F> HH two's complement of byte sum)")
	symReach("end")
}

// C05 K2: ordering by (precedence, compressed size, MID)
func H_c05_sort() {
	K := symParam("K", 3)
	k := symInt(0, K)
	props := make([]*Proposal, k)
	titles := [...]string{"x //WL2K Z/ a", "//WL2K O/", "b //WL2K P/", "plain"}
	for i := range props {
		sz := int(symUint16()) // symbolic size
		if symParam("SMALLSIZE", 1) == 1 {
			symAssume(sz < 3) // force ties
		}
		props[i] = &Proposal{mid: symMID(1), compressedSize: sz, title: titles[symInt(0, 3)]}
	}
	orig := append([]*Proposal(nil), props...)
	sortProposals(props)
	// permutation
	for _, o := range orig {
		n := 0
		for _, p := range props {
			if p == o {
				n++
			}
		}
		symAssert(n == 1, "sort-is-a-permutation")
	}
	for i := 1; i < len(props); i++ {
		a, b := props[i-1], props[i]
		pa, pb := a.precedence(), b.precedence()
		ok := pa < pb || (pa == pb && (a.compressedSize < b.compressedSize || (a.compressedSize == b.compressedSize && a.mid <= b.mid)))
		symAssert(ok, "sorted-by-precedence-then-size-then-mid")
	}
	symReach("end")
}

// C05 K3 (+ C01 K1): emitted frame = reference frame; every data block 1..250
// bytes, header length byte, ASCII title, offset; the reader side of a second
// session accepts it and recovers the payload.
func H_c05_emit_frame() {
	sizes := [...]int{6, 7, 124, 125, 126, 250, 251, 300}
	n := sizes[symInt(0, symParam("NSIZES", 5)-1)]
	data := symBytes(n)
	title := [...]string{"T", "Re: test //WL2K P/", "bl\xe5b\xe6r"}[symInt(0, 2)]
	offset := 0
	if symInt(0, 1) == 1 {
		offset = symInt(1, 3) * n / 3 // n/3, 2n/3, n
	}
	conn := newVConn(nil)
	s := newVSession(&recHandler{failAt: -1}, conn, true)
	p := &Proposal{code: Wl2kProposal, mid: "MID", title: title, compressedData: data, compressedSize: n, offset: offset}
	err := s.writeCompressed(conn, p)
	symAssert(err == nil, "writeCompressed-ok")
	out := conn.out
	// structure per reference parser
	rt, rdata, consumed, ok := refParseFrame(out, refItoa(offset))
	symAssert(ok, "emitted-frame-valid-per-reference")
	symAssert(consumed == len(out), "nothing-after-the-frame")
	symAssert(bytes.Equal(rdata, data[offset:]), "frame-carries-payload-from-offset")
	for i := 0; i < len(rt); i++ {
		symAssert(rt[i] >= 0x20 && rt[i] < 0x7f, "title-is-printable-ascii")
	}
	symAssert(len(rt) >= 1 && len(rt) <= 80, "title-length-1..80")
	// the library's own chunking: blocks of at most 125 (any 1..250 conforms)
	want := refEncodeFrame(rt, offset, data[offset:], chunkList(len(data)-offset, 125))
	symAssert(bytes.Equal(out, want), "frame-bytes-equal-reference-encoding")

	// receiver side
	conn2 := newVConn(out)
	r := newVSession(&recHandler{failAt: -1}, conn2, false)
	q := &Proposal{code: Wl2kProposal, mid: "MID", compressedSize: n - offset, offset: offset}
	err = r.readCompressed(conn2, q)
	symAssert(err == nil, "receiver-accepts-emitted-frame")
	symAssert(bytes.Equal(q.compressedData, data[offset:]), "receiver-recovers-payload")
	symReach("end")
}

// C05 K4: every legal answer string is parsed to the prescribed outcome
func H_c05_answers() {
	P := symParam("P", 3)
	n := symInt(1, P)
	props := make([]*Proposal, n)
	want := make([]int, n)
	wantOff := make([]int, n)
	isH := make([]bool, n)
	str := "FS "
	items := [...]string{"+", "Y", "y", "-", "N", "n", "R", "r", "=", "L", "l", "H", "h", "!", "A", "a"}
	meaning := [...]int{refAccept, refAccept, refAccept, refReject, refReject, refReject, refReject, refReject, refDefer, refDefer, refDefer, refAccept, refAccept, refAccept, refAccept, refAccept}
	for i := range props {
		props[i] = &Proposal{mid: "M", code: Wl2kProposal}
		it := symInt(0, len(items)-1)
		str += items[it]
		want[i] = meaning[it]
		isH[i] = it == 11 || it == 12
		if it >= 13 {
			nd := symInt(1, 3)
			off := 0
			for d := 0; d < nd; d++ {
				c := symByte()
				symAssume(c >= '0' && c <= '9')
				str += string([]byte{c})
				off = off*10 + int(c-'0')
			}
			wantOff[i] = off
		}
	}
	err := parseProposalAnswer(str, props, nil)
	symAssert(err == nil, "legal-answer-accepted")
	for i, p := range props {
		got := 0
		switch p.answer {
		case Accept:
			got = refAccept
		case Reject:
			got = refReject
		case Defer:
			got = refDefer
		}
		if isH[i] && got == refDefer {
			symAssert(false, "answer H (accepted, will be held) must be treated as accept")
		} else {
			symAssert(got == want[i], "answer-letter-maps-to-prescribed-outcome")
		}
		symAssert(p.offset == wantOff[i], "offset-equals-digits")
	}
	symReach("end")
}

// C05 K5: every legal data-block size is accepted by the frame reader
func H_c05_block_sizes() {
	first := symInt(1, 256)
	total := first + symInt(0, 2)
	data := symBytes(total)
	frame := refEncodeFrame("T", 0, data, []int{first, 1, 1})
	conn := newVConn(frame)
	s := newVSession(&recHandler{failAt: -1}, conn, false)
	p := &Proposal{code: Wl2kProposal, mid: "MID", compressedSize: total}
	err := s.readCompressed(conn, p)
	symAssert(err == nil, "conforming-frame-accepted (block sizes 1..256, size byte 0 = 256)")
	symAssert(bytes.Equal(p.compressedData, data), "payload-recovered")
	symReach("end")
}

// reference handshake (sid.html, Winlink B2F): forwarder line, SID, optional
// ;PR:, identification comment ending in '>' for the master
func refHandshake(mycall, target, locator, name, version string, master bool, gzip bool) string {
	sid := "B2FHM$"
	if gzip {
		sid = "B2FHMG$"
	}
	s := ";FW: " + mycall + "\r"
	s += "[" + name + "-" + version + "-" + sid + "]\r"
	s += "; " + target + " DE " + mycall + " (" + locator + ")"
	if master {
		s += ">"
	}
	return s + "\r"
}

// C05 K6: handshake emission and acceptance
func H_c05_handshake() {
	L := symParam("L", 2)
	call := symMID(symInt(1, L))
	target := symMID(symInt(1, L))
	name := symMID(1)
	version := symMID(1)
	master := symInt(0, 1) == 1
	gz := symInt(0, 1) == 1
	if gz {
		symSetenv("GZIP_EXPERIMENT", "1")
	} else {
		symSetenv("GZIP_EXPERIMENT", "")
	}
	conn := newVConn(nil)
	s := NewSession(call, target, "JP20QE", &recHandler{failAt: -1})
	s.SetLogger(quietLogger())
	s.SetUserAgent(UserAgent{Name: name, Version: version})
	s.master = master
	err := s.sendHandshake(conn, "")
	symAssert(err == nil, "sendHandshake-ok")
	want := refHandshake(call, target, "JP20QE", name, version, master, gz)
	symAssert(string(conn.out) == want, "handshake-bytes-conform")
	symReach("emitted")

	// acceptance: conforming remote handshake with a symbolic feature string around B2
	feat := []byte("B2F")
	extra := symInt(0, 3)
	for i := 0; i < extra; i++ {
		c := symByte()
		symAssume(c >= 'A' && c <= 'Z' && c != 'B')
		feat = append(feat, c)
	}
	lower := symInt(0, 1) == 1
	fs := string(feat) + "$"
	if lower {
		fs = strings.ToLower(fs)
	}
	remote := "Welcome to the BBS\r*** MTD Stats Total connects = 2580\r;FW: " + target + " AUX1|12345678 AUX2\r[RMS-3.0-" + fs + "]\r;PM: X Y 10 Z subject\r; comment\rCMS>\r"
	rconn := newVConn([]byte(remote))
	r := NewSession(call, target, "JP20QE", &recHandler{failAt: -1})
	r.SetLogger(quietLogger())
	r.master = false
	r.rd = bufioReader(rconn)
	hs, err := r.readHandshake()
	symAssert(err == nil, "conforming-handshake-accepted")
	symAssert(len(hs.FW) == 3 && hs.FW[0].Addr == target && hs.FW[1].Addr == "AUX1" && hs.FW[2].Addr == "AUX2", "forwarders-passed-on-without-hash")
	symAssert(hs.SID.Has("B2"), "sid-has-b2")

	// a SID without B2 is refused
	bad := "[RMS-3.0-BFHM$]\rCMS>\r"
	bconn := newVConn([]byte(bad))
	b := NewSession(call, target, "JP20QE", &recHandler{failAt: -1})
	b.SetLogger(quietLogger())
	b.rd = bufioReader(bconn)
	_, err = b.readHandshake()
	symAssert(err == ErrNoFB2, "sid-without-b2-refused")
	symReach("end")
}

// C05 K2b: ordering of long queues (sort.Sort switches algorithm above 12
// elements: a comparator that relies on stability only shows there)
func H_c05_sort_large() {
	n := [...]int{13, 16, 20}[symInt(0, 2)]
	sizeTpl := symInt(0, 3)
	precTpl := symInt(0, 2)
	titles := [...]string{"x //WL2K Z/ a", "//WL2K O/", "b //WL2K P/", "plain"}
	props := make([]*Proposal, n)
	for i := range props {
		var sz int
		switch sizeTpl {
		case 0:
			sz = n - i // descending
		case 1:
			sz = i // ascending
		case 2:
			sz = (i * 7) % n // scattered
		case 3:
			sz = (i * 5) % 3 // many ties
		}
		if i < 3 {
			sz += symInt(0, 1) * n // three of them move to the far end or not
		}
		var t string
		switch precTpl {
		case 0:
			t = titles[3]
		case 1:
			t = titles[i%2*3] // flash / routine alternating
		case 2:
			t = titles[i%4]
		}
		props[i] = &Proposal{mid: "M" + refItoa(100+i), compressedSize: sz, title: t}
	}
	sortProposals(props)
	for i := 1; i < len(props); i++ {
		a, b := props[i-1], props[i]
		pa, pb := a.precedence(), b.precedence()
		ok := pa < pb || (pa == pb && (a.compressedSize < b.compressedSize || (a.compressedSize == b.compressedSize && a.mid <= b.mid)))
		symAssert(ok, "sorted-by-precedence-then-size-then-mid")
	}
	symReach("end")
}
