package fbb

import "bytes"

// C02 K1: sender half.  One or two outbound messages; the inbound stream is
// "FS <answers>\r" + up to T symbolic bytes, cut after k bytes (then EOF);
// writes fail after j bytes.  At the end: a message is reported sent
// (rejected=false) only if its complete frame was accepted by the writer and
// a byte 'F' or ';' was received after the FS line.
func H_c02_sender_faults() {
	N := symParam("N", 1)
	T := symParam("T", 2)
	n := symInt(1, N)
	msgs := c01Msgs(n)
	h := &recHandler{failAt: -1, out: msgs}
	ans := make([]byte, n)
	for i := range ans {
		ans[i] = [...]byte{'+', '-', '='}[symInt(0, 2)]
	}
	tail := symBytes(symInt(0, T))
	var script []byte
	script = append(script, "FS "...)
	script = append(script, ans...)
	script = append(script, '\r')
	fsLen := len(script)
	script = append(script, tail...)
	k := symInt(0, len(script)) // cut position of the inbound direction
	conn := newVConn(script[:k])

	s := newVSession(h, conn, true)
	s.remoteSID = "B2FHM$"
	s.remoteNoMsgs = symInt(0, 1) == 1 // the peer ended its previous turn with FF, or not
	props := s.outbound()
	var lines []string
	total := 0
	for i := 0; i < n; i++ {
		lines = append(lines, refProposalLine('C', props[i].mid, props[i].size, props[i].compressedSize))
	}
	block := refProposalBlock(lines)
	total = len(block)
	for i := 0; i < n; i++ {
		if ans[i] == '+' {
			total += len(refEncodeFrame("subj0", 0, props[i].compressedData, chunkList(len(props[i].compressedData), 125)))
		}
	}
	// write fault: never, or after j bytes (a few interesting positions around the frame end)
	switch symInt(0, 4) {
	case 0:
		conn.failAt = -1
	case 1:
		conn.failAt = symInt(0, 3)
	case 2:
		conn.failAt = len(block) + symInt(0, 3)
	case 3:
		conn.failAt = total - symInt(1, 3)
	case 4:
		conn.failAt = total
	}
	_, err := s.handleOutbound(conn)
	_ = err
	symBudget(20000000)

	confirmed := k > fsLen && (script[fsLen] == 'F' || script[fsLen] == ';')
	rest := conn.out
	if len(rest) >= len(block) {
		rest = rest[len(block):]
	} else {
		rest = nil
	}
	for i := 0; i < n; i++ {
		mid := props[i].mid
		if count(h.sent, mid) > 0 {
			symReach("reported-sent")
			symAssert(ans[i] == '+', "only-accepted-messages-are-reported-sent")
			symAssert(count(h.sent, mid) == 1, "reported-sent-at-most-once")
			symAssert(confirmed, "reported-sent-only-after-peer-confirmation-byte (F or ;)")
			symAssert(k >= fsLen, "reported-sent-only-if-FS-line-arrived")
		}
		if count(s.trafficStats.Sent, mid) > 0 {
			// the statistics of a failed turn must not list what the peer never confirmed either
			symAssert(ans[i] == '+' && confirmed && k >= fsLen, "traffic-stats-list-only-confirmed-transfers")
		}
		if ans[i] == '+' {
			_, data, used, ok := refParseFrame(rest, "0")
			if count(h.sent, mid) > 0 {
				symAssert(ok && bytes.Equal(data, props[i].compressedData), "reported-sent-only-if-complete-frame-was-written")
			}
			if ok {
				rest = rest[used:]
			} else {
				rest = nil
			}
		}
		if count(h.rejected, mid) > 0 {
			symAssert(ans[i] == '-' && k >= fsLen, "already-received-only-on-peer-reject")
		}
	}
	symReach("end")
}

// C02 K2: receiver half through Exchange.  The reference peer (master) sends n
// messages; ProcessInbound fails at a symbolic index.  Nothing may be written
// between the FS answer and the successful return of every ProcessInbound; after
// a failure the first byte written is '*'; what was handed over is identical.
type c02Handler struct {
	recHandler
	conn  *vConn
	outAt []int
}

func (h *c02Handler) ProcessInbound(msgs ...*Message) error {
	h.outAt = append(h.outAt, len(h.conn.out))
	return h.recHandler.ProcessInbound(msgs...)
}

func H_c02_receiver_faults() {
	N := symParam("N", 2)
	n := symInt(1, N)
	msgs := c01Msgs(n)
	f := symInt(-1, n-1) // failing ProcessInbound call (-1: none)
	var lines []string
	raws := make([][]byte, n)
	var frames []byte
	for i, m := range msgs {
		raw, _ := m.Bytes()
		p := NewProposal(m.MID(), m.Subject(), Wl2kProposal, raw)
		raws[i] = raw
		lines = append(lines, refProposalLine('C', m.MID(), len(raw), len(p.compressedData)))
		frames = append(frames, refEncodeFrame("t", 0, p.compressedData, nil)...)
	}
	var in []byte
	in = append(in, "[RMS-1.0-B2FHM$]\r; N0CALL DE N1CALL (JP20QE)>\r"...)
	in = append(in, refProposalBlock(lines)...)
	in = append(in, frames...)
	in = append(in, "FF\r"...) // never reached by the library when all is well: it answers FF itself first
	// cut of the inbound direction
	cutting := symInt(0, 1) == 1
	if cutting {
		k := symInt(0, len(in)/8) * 8
		in = in[:k]
	}
	conn := newVConn(in)
	h := &c02Handler{conn: conn}
	h.failAt = f
	s := NewSession("N0CALL", "N1CALL", "JP20QE", h)
	s.SetLogger(quietLogger())
	s.IsMaster(false)
	_, err := s.Exchange(conn)
	symAssert(conn.closed > 0, "connection-closed")
	out := conn.out
	// locate the FS answer in what we wrote
	fs := bytes.Index(out, []byte("FS "))
	if len(h.outAt) > 0 {
		symAssert(fs >= 0, "answer-written-before-any-delivery")
		end := fs + 3 + n + 1
		for i, at := range h.outAt {
			symAssert(at == end, "no-byte-written-between-FS-answer-and-ProcessInbound")
			_ = i
		}
		if f >= 0 && len(h.outAt) > f {
			symAssert(err != nil, "storage-error-fails-the-exchange")
			symAssert(len(out) == end || out[end] == '*', "after-a-storage-error-the-first-byte-written-is-*")
			symAssert(len(h.inbound) == f, "nothing-delivered-after-the-failure")
			symReach("storage-error")
		}
	}
	for i, m := range h.inbound {
		got, _ := m.Bytes()
		symAssert(bytes.Equal(got, raws[i]), "handed-over-bytes-identical-to-queued-message")
	}
	if !cutting && f < 0 {
		symAssert(len(h.inbound) == n, "all-delivered-without-fault")
		symReach("clean")
	}
	symReach("end")
}
