package fbb

// Independent reference peer for the B2F wire format, written from
// docs/F6FBB-B2F/protocole.html and the Winlink B2F description (not from the
// library code).  Used by C01/C02/C04/C05.

const (
	refSOH = 0x01
	refSTX = 0x02
	refEOT = 0x04
)

func refItoa(n int) string {
	if n == 0 {
		return "0"
	}
	neg := n < 0
	if neg {
		n = -n
	}
	var b []byte
	for n > 0 {
		b = append([]byte{byte('0' + n%10)}, b...)
		n /= 10
	}
	if neg {
		b = append([]byte{'-'}, b...)
	}
	return string(b)
}

// "FC EM <mid> <usize> <csize> 0"
func refProposalLine(code byte, mid string, usize, csize int) string {
	return "F" + string([]byte{code}) + " EM " + mid + " " + refItoa(usize) + " " + refItoa(csize) + " 0"
}

// two's complement of the byte sum of all proposal lines, each including its CR
func refBlockChecksum(lines []string) byte {
	var sum byte
	for _, l := range lines {
		for i := 0; i < len(l); i++ {
			sum += l[i]
		}
		sum += '\r'
	}
	return -sum
}

func refHex2(b byte) string {
	const d = "0123456789ABCDEF"
	return string([]byte{d[b>>4], d[b&15]})
}

// a complete proposal block as sent by a conforming peer
func refProposalBlock(lines []string) []byte {
	var out []byte
	for _, l := range lines {
		out = append(out, l...)
		out = append(out, '\r')
	}
	out = append(out, "F> "...)
	out = append(out, refHex2(refBlockChecksum(lines))...)
	out = append(out, '\r')
	return out
}

// SOH len title NUL offset NUL (STX n data)* EOT cks ; chunk sizes 1..256 (size byte 0 = 256)
func refEncodeFrame(title string, offset int, data []byte, chunks []int) []byte {
	off := refItoa(offset)
	var out []byte
	out = append(out, refSOH, byte(len(title)+len(off)+2))
	out = append(out, title...)
	out = append(out, 0)
	out = append(out, off...)
	out = append(out, 0)
	var sum byte
	pos, ci := 0, 0
	for pos < len(data) {
		n := 250
		if ci < len(chunks) {
			n = chunks[ci]
			ci++
		}
		if n > len(data)-pos {
			n = len(data) - pos
		}
		out = append(out, refSTX, byte(n)) // 256 -> 0
		for i := 0; i < n; i++ {
			out = append(out, data[pos+i])
			sum += data[pos+i]
		}
		pos += n
	}
	out = append(out, refEOT, -sum)
	return out
}

// refParseFrame validates a frame the way the protocol text prescribes and
// returns the payload; consumed is the number of bytes of in that belong to it.
func refParseFrame(in []byte, wantOffset string) (title string, data []byte, consumed int, ok bool) {
	p := 0
	next := func() (byte, bool) {
		if p >= len(in) {
			return 0, false
		}
		b := in[p]
		p++
		return b, true
	}
	b, have := next()
	if !have || b != refSOH {
		return
	}
	hl, have := next()
	if !have {
		return
	}
	start := p
	var t []byte
	for {
		b, have = next()
		if !have {
			return
		}
		if b == 0 {
			break
		}
		t = append(t, b)
	}
	var off []byte
	for {
		b, have = next()
		if !have {
			return
		}
		if b == 0 {
			break
		}
		off = append(off, b)
	}
	if p-start != int(hl) {
		return
	}
	if string(off) != wantOffset {
		return
	}
	var sum byte
	for {
		b, have = next()
		if !have {
			return
		}
		switch b {
		case refSTX:
			nb, have := next()
			if !have {
				return
			}
			n := int(nb)
			if n == 0 {
				n = 256
			}
			for i := 0; i < n; i++ {
				d, have := next()
				if !have {
					return
				}
				data = append(data, d)
				sum += d
			}
		case refEOT:
			c, have := next()
			if !have {
				return
			}
			if sum+c != 0 {
				return
			}
			return string(t), data, p, true
		default:
			return
		}
	}
}

// answer alphabet of protocol versions 0/1 (protocole.html): meaning of one answer item
const (
	refAccept = 1
	refReject = 2
	refDefer  = 3
)
