package fbb

import (
	"io"
	"net"
	"time"
)

// A duplex in-memory link with back pressure and deadlines, like a TCP
// connection with small socket buffers: a Write blocks while the peer does not
// read (at most one chunk of bpChunk bytes is in flight per direction), Read
// and Write honour their deadlines, Close wakes both ends.
const bpChunk = 16

type bpShared struct {
	closedA, closedB chan struct{}
}

type bpEnd struct {
	rx, tx       chan []byte
	left         []byte
	myClosed     chan struct{}
	peerClosed   chan struct{}
	closed       bool
	rdl, wdl     time.Time
	bytesWritten int
}

func newBPPipe() (*bpEnd, *bpEnd) {
	a2b, b2a := make(chan []byte, 1), make(chan []byte, 1)
	ca, cb := make(chan struct{}), make(chan struct{})
	return &bpEnd{rx: b2a, tx: a2b, myClosed: ca, peerClosed: cb}, &bpEnd{rx: a2b, tx: b2a, myClosed: cb, peerClosed: ca}
}

func bpTimer(dl time.Time) (<-chan time.Time, func(), bool) {
	if dl.IsZero() {
		return nil, func() {}, true
	}
	d := time.Until(dl)
	if d <= 0 {
		return nil, func() {}, false
	}
	t := time.NewTimer(d)
	return t.C, func() { t.Stop() }, true
}

func (p *bpEnd) Read(b []byte) (int, error) {
	if len(p.left) == 0 {
		if p.closed {
			return 0, net.ErrClosed
		}
		// data already in flight is delivered before the peer's close is seen
		select {
		case chunk := <-p.rx:
			p.left = chunk
		default:
			timeout, stop, ok := bpTimer(p.rdl)
			if !ok {
				return 0, errBPTimeout
			}
			defer stop()
			select {
			case chunk := <-p.rx:
				p.left = chunk
			case <-p.peerClosed:
				select {
				case chunk := <-p.rx:
					p.left = chunk
				default:
					return 0, io.EOF
				}
			case <-p.myClosed:
				return 0, net.ErrClosed
			case <-timeout:
				return 0, errBPTimeout
			}
		}
	}
	n := copy(b, p.left)
	p.left = p.left[n:]
	return n, nil
}

type bpTimeoutErr struct{}

func (bpTimeoutErr) Error() string   { return "i/o timeout" }
func (bpTimeoutErr) Timeout() bool   { return true }
func (bpTimeoutErr) Temporary() bool { return true }

var errBPTimeout error = bpTimeoutErr{}

func (p *bpEnd) Write(b []byte) (int, error) {
	done := 0
	for done < len(b) {
		if p.closed {
			return done, net.ErrClosed
		}
		n := len(b) - done
		if n > bpChunk {
			n = bpChunk
		}
		chunk := append([]byte(nil), b[done:done+n]...)
		timeout, stop, ok := bpTimer(p.wdl)
		if !ok {
			return done, errBPTimeout
		}
		select {
		case p.tx <- chunk:
			stop()
		case <-p.peerClosed:
			stop()
			return done, io.ErrClosedPipe
		case <-p.myClosed:
			stop()
			return done, net.ErrClosed
		case <-timeout:
			stop()
			return done, errBPTimeout
		}
		done += n
		p.bytesWritten += n
	}
	return done, nil
}

func (p *bpEnd) Close() error {
	if !p.closed {
		p.closed = true
		close(p.myClosed)
	}
	return nil
}
func (p *bpEnd) LocalAddr() net.Addr                { return vAddr{} }
func (p *bpEnd) RemoteAddr() net.Addr               { return vAddr{} }
func (p *bpEnd) SetDeadline(t time.Time) error      { p.rdl, p.wdl = t, t; return nil }
func (p *bpEnd) SetReadDeadline(t time.Time) error  { p.rdl = t; return nil }
func (p *bpEnd) SetWriteDeadline(t time.Time) error { p.wdl = t; return nil }

// C02 K3: two real Sessions over a link with back pressure; the receiving
// handler reports a storage error for one of the messages.  Both Exchange
// calls return in bounded (virtual) time, the receiver's error is not nil, and
// a message is reported sent only if the peer's handler received it.
func H_c02_backpressure() {
	na := symInt(1, symParam("NA", 3))
	msgs := c01Msgs(na)
	ha := &recHandler{failAt: -1, out: msgs}
	hb := &recHandler{failAt: symInt(0, na-1)}
	ca, cb := newBPPipe()
	a := NewSession("N0CALL", "N1CALL", "JP20QE", &sessMbox{recHandler: ha})
	b := NewSession("N1CALL", "N0CALL", "JP20QE", &sessMbox{recHandler: hb})
	a.SetLogger(quietLogger())
	b.SetLogger(quietLogger())
	a.IsMaster(true)
	start := time.Now()
	// watchdog: after five minutes both ends are closed so that a hung
	// exchange still returns and the lateness is reported as an assertion
	late := false
	go func() {
		time.Sleep(5 * time.Minute)
		late = true
		ca.Close()
		cb.Close()
	}()
	done := make(chan exchangeResult, 1)
	go func() {
		st, err := b.Exchange(cb)
		done <- exchangeResult{st, err}
	}()
	_, errA := a.Exchange(ca)
	rb := <-done
	elapsed := time.Since(start)
	symAssert(!late && elapsed < 5*time.Minute, "both-exchanges-return-in-bounded-time")
	symAssert(rb.err != nil, "storage-error-fails-the-receiving-exchange")
	symAssert(ca.closed && cb.closed, "connection-closed")
	for _, m := range msgs {
		mid := m.MID()
		delivered := 0
		for _, in := range hb.inbound {
			if in.MID() == mid {
				delivered++
			}
		}
		symAssert(delivered <= 1, "no-duplicate-delivery")
		symAssert(count(ha.sent, mid) <= delivered, "reported-sent-only-if-the-peers-handler-received-it")
	}
	_ = errA
	symReach("end")
}
