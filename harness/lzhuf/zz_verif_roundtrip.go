package lzhuf

import (
	"bytes"
	"io"
	"os"
)

// alphabet restriction for the longer fully-symbolic inputs ("exhaustively for
// short strings over small alphabets"): ' ' matters because the window is
// pre-filled with spaces.
func symAlphaByte(alpha int) byte {
	b := symByte()
	switch alpha {
	case 0: // all 256 values
	case 2:
		symAssume(b == ' ' || b == 'a')
	case 3:
		symAssume(b == ' ' || b == 'a' || b == 0xff)
	case 5: // 0 is what the ring buffer holds past the end of a short input
		symAssume(b == 0 || b == ' ' || b == 'a')
	default:
		symAssume(b == ' ' || b == 'a' || b == 'b' || b == 0xff)
	}
	return b
}

func compress(in []byte, cut int, b2 bool) ([]byte, error) {
	var buf bytes.Buffer
	w := NewWriter(&buf, b2)
	if cut >= 0 {
		n1, err := w.Write(in[:cut])
		symAssert(err == nil && n1 == cut, "write-accepts-everything")
		n2, err := w.Write(in[cut:])
		symAssert(err == nil && n2 == len(in)-cut, "write-accepts-everything")
	} else {
		// byte-at-a-time
		for i := range in {
			n, err := w.Write(in[i : i+1])
			symAssert(err == nil && n == 1, "write-accepts-everything")
		}
	}
	err := w.Close()
	return buf.Bytes(), err
}

func decompress(z []byte, b2 bool, bufsz int, limit int) ([]byte, error, error) {
	r, err := NewReader(bytes.NewReader(z), b2)
	if err != nil {
		return nil, err, nil
	}
	var out []byte
	for calls := 0; ; calls++ {
		symAssert(calls <= limit, "read-loop-terminates")
		p := make([]byte, bufsz)
		n, err := r.Read(p)
		out = append(out, p[:n]...)
		if err == io.EOF {
			break
		}
		if err != nil {
			return out, err, nil
		}
	}
	return out, nil, r.Close()
}

func sameBytes(a, b []byte) bool {
	if len(a) != len(b) {
		return false
	}
	for i := range a {
		if a[i] != b[i] {
			return false
		}
	}
	return true
}

// C06 K1 + C07 K1/K2/K3b: whole-codec round trip on fully symbolic inputs.
//   input: n <= N bytes over the chosen alphabet (ALPHA=0: all 256 values)
//   every cut of the input into two Write calls, plus byte-at-a-time writes
//   read buffer sizes {1, 64}; with and without the B2 header
func H_roundtrip() {
	N := symParam("N", 1)
	alpha := symParam("ALPHA", 0)
	n := symInt(0, N)
	in := make([]byte, n)
	for i := range in {
		in[i] = symAlphaByte(alpha)
	}
	b2, cut, bufsz := true, n, 64
	switch symParam("VARIANTS", 1) {
	case 1:
		b2 = symInt(0, 1) == 1
		cut = symInt(-1, n)
		bufsz = [...]int{1, 64}[symInt(0, 1)]
	case 2: // write chunking only
		cut = symInt(-1, n)
	}
	hdr := 4
	if b2 {
		hdr = 6
	}

	z, err := compress(in, cut, b2)
	symAssert(err == nil, "writer-close-ok")
	// C06: the compressed bytes do not depend on how the writes were split
	z1, err := compress(in, n, b2)
	symAssert(err == nil, "writer-close-ok")
	symAssert(sameBytes(z, z1), "compressed-bytes-independent-of-write-chunking")

	// C07 K3b: canonical B2 header
	symAssert(len(z) >= hdr, "header-present")
	size := int(int32(uint32(z[hdr-4]) | uint32(z[hdr-3])<<8 | uint32(z[hdr-2])<<16 | uint32(z[hdr-1])<<24))
	symAssert(size == n, "header-size-is-little-endian-uncompressed-length")
	if b2 {
		want := refCRCFold(z[2:])
		symAssert(z[0] == byte(want) && z[1] == byte(want>>8), "header-crc-is-little-endian-crc16-over-size-and-data")
	}

	// C06: library decoder reproduces the input
	out, rerr, cerr := decompress(z, b2, bufsz, n+3)
	symAssert(rerr == nil, "reader-no-error")
	symAssert(cerr == nil, "reader-close-ok")
	symAssert(sameBytes(out, in), "roundtrip-reproduces-input")

	// C07 K1: the independent canonical decoder reproduces the input from the library's stream
	ref, pad := refDecode(z[hdr:], n, n+64)
	symAssert(sameBytes(ref, in), "reference-decoder-reproduces-input")
	symAssert(pad <= 2, "reference-decoder-needs-no-invented-input")

	// C07 K2: the library decodes the canonical encoder's stream
	body := refEncode(in)
	var rz []byte
	rz = append(rz, z[:hdr]...) // same header layout (size and CRC depend on the body: recompute)
	rz = append(rz[:hdr], body...)
	if b2 {
		c := refCRCFold(rz[2:])
		rz[0], rz[1] = byte(c), byte(c>>8)
	}
	out2, rerr2, cerr2 := decompress(rz, b2, bufsz, n+3)
	symAssert(rerr2 == nil && cerr2 == nil, "library-accepts-canonical-stream")
	symAssert(sameBytes(out2, in), "library-decodes-canonical-stream")
	symReach("end")
}

// C06 K2 / C07: deep states — concrete prefix from the repo's test data, a
// window of k symbolic bytes, a short concrete tail.
func H_roundtrip_prefix() {
	P := symParam("P", 70)
	k := symParam("KSYM", 1)
	alpha := symParam("ALPHA", 0)
	file := [...]string{"testdata/gettysburg.txt", "testdata/pi.txt", "testdata/e.txt", "testdata/Mark.Twain-Tom.Sawyer.txt"}[symParam("FILE", 0)]
	data, err := os.ReadFile(file)
	symAssume(err == nil && len(data) >= P+8)
	// SYMPOS (default P): where the symbolic bytes go; an early position with a
	// long P puts them before the adaptive-tree rebuild (frequency 0x8000)
	sp := symParam("SYMPOS", P)
	in := append([]byte(nil), data[:sp]...)
	for i := 0; i < k; i++ {
		in = append(in, symAlphaByte(alpha))
	}
	in = append(in, data[sp:P+8]...)
	if P > 10000 {
		symBudget(2000000000)
	}
	z, err := compress(in, len(in), true)
	symAssert(err == nil, "writer-close-ok")
	out, rerr, cerr := decompress(z, true, 64, len(in)+3)
	symAssert(rerr == nil && cerr == nil, "reader-ok")
	symAssert(sameBytes(out, in), "roundtrip-reproduces-input")
	before := refReconstCount
	ref, _ := refDecode(z[6:], len(in), len(in)+64)
	symAssert(sameBytes(ref, in), "reference-decoder-reproduces-input")
	if refReconstCount > before {
		symReach("tree-rebuilt")
	}
	symReach("end")
}

// C07 K4: position-code tables equal the canonical prefix code for the
// lengths 3x1 4x3 5x8 6x12 7x24 8x16 (reference tables are computed).
func H_tables() {
	var z refLZ
	z.makeTables()
	i := int(symByte())
	symAssert(dCode[i] == z.dCode[i], "dCode-canonical")
	symAssert(dLen[i] == z.dLen[i], "dLen-canonical")
	j := i & 63
	symAssert(pCode[j] == z.pCode[j], "pCode-canonical")
	symAssert(pLen[j] == z.pLen[j], "pLen-canonical")
	// decoding table inverts the encoding table
	symAssert(int(dCode[pCode[j]]) == j && dLen[pCode[j]] == pLen[j], "tables-inverse")
	symAssert(_N == 2048 && _F == 60 && _Threshold == 2 && _MaxFreq == 0x8000, "canonical-parameters")
	symReach("end")
}

// C06/C07 K2b: window-wrap mirror region.  The 60th byte of a candidate match
// that starts at the end of the ring buffer is read from the mirror copy
// textBuf[N .. N+F-2].  Template: filler so that a block of RUN bytes 'q'
// followed by a symbolic byte X starts at ring index DELTA+1988 (DELTA = 59 is
// index 2047), later the same run followed by a byte Y; X is symbolic (all 256
// values), Y ranges over {0x00, 'q', X, X+1}.  Round trip through the library
// and through the independent reference decoder.
func H_window_mirror() {
	deltas := [...]int{59, 58, 60}
	runs := [...]int{59, 58}
	delta := deltas[symInt(0, symParam("NDELTA", 1)-1)]
	run := runs[symInt(0, symParam("NRUN", 1)-1)]
	x := symByte()
	var y byte
	switch symInt(0, symParam("NY", 2)-1) {
	case 0:
		y = 0
	case 1:
		y = x
	case 2:
		y = 'q'
	case 3:
		y = x + 1
	}
	var in []byte
	fill := func(n int, seed byte) {
		for i := 0; i < n; i++ {
			in = append(in, 'A'+byte((int(seed)+i*7)%23)) // no long repeats, never 'q'
			if i%5 == 4 {
				in[len(in)-1] = byte('0' + (i/5)%10)
			}
		}
	}
	fill(delta, 1)
	for i := 0; i < run; i++ {
		in = append(in, 'q')
	}
	in = append(in, x)
	fill(150, 9)
	for i := 0; i < run; i++ {
		in = append(in, 'q')
	}
	in = append(in, y)
	fill(20, 4)
	z, err := compress(in, len(in), true)
	symAssert(err == nil, "writer-close-ok")
	out, rerr, cerr := decompress(z, true, 64, len(in)+3)
	symAssert(rerr == nil && cerr == nil, "reader-ok")
	symAssert(sameBytes(out, in), "roundtrip-reproduces-input")
	ref, _ := refDecode(z[6:], len(in), len(in)+64)
	symAssert(sameBytes(ref, in), "reference-decoder-reproduces-input")
	symReach("end")
}
