package lzhuf

import (
	"bytes"
	"io/ioutil"
	"path/filepath"
	"testing"
)

// Native sanity test of the independent reference against the repository's
// own test data (translator-validation input for C06-C08).
func TestVerifReference(t *testing.T) {
	files, _ := filepath.Glob("testdata/*")
	inputs := [][]byte{nil, []byte("a"), []byte("abcabcabcabcabcabcabc"), bytes.Repeat([]byte("x"), 5000)}
	for _, f := range files {
		if filepath.Ext(f) == ".lzh" {
			continue
		}
		b, err := ioutil.ReadFile(f)
		if err == nil {
			inputs = append(inputs, b)
		}
	}
	for i, in := range inputs {
		var buf bytes.Buffer
		w := NewB2Writer(&buf)
		w.Write(in)
		if err := w.Close(); err != nil {
			t.Fatal(err)
		}
		lib := buf.Bytes()
		ref := refEncode(in)
		if !bytes.Equal(lib[6:], ref) {
			t.Errorf("input %d (%d bytes): library body differs from reference encoder", i, len(in))
		}
		out, pad := refDecode(lib[6:], len(in), len(in)+64)
		if !bytes.Equal(out, in) && !(len(in) == 0 && len(out) == 0) {
			t.Errorf("input %d: reference decoder does not reproduce the input (pad %d)", i, pad)
		}
		if got := refCRC16(lib[2:]); byte(got) != lib[0] || byte(got>>8) != lib[1] {
			t.Errorf("input %d: CRC %04x vs header %02x%02x", i, got, lib[1], lib[0])
		}
	}
}
