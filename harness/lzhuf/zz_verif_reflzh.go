package lzhuf

// Independent port of the canonical LZHUF.C (H. Yoshizaki / H. Okumura, 1988)
// with the FBB parameters (N = 2048, F = 60, THRESHOLD = 2).  Written from the
// published C source, not from this repository's Go code; the position tables
// are *computed* from the code-length histogram instead of being copied.
// Used as the reference peer of C06/C07/C08.

const (
	refN        = 2048
	refF        = 60
	refTHRESH   = 2
	refNIL      = refN
	refNCHAR    = 256 - refTHRESH + refF
	refT        = refNCHAR*2 - 1
	refR        = refT - 1
	refMAXFREQ  = 0x8000
)

type refLZ struct {
	textBuf       [refN + refF - 1]byte
	matchPosition int
	matchLength   int
	lson          [refN + 1]int
	rson          [refN + 257]int
	dad           [refN + 1]int

	freq [refT + 1]uint
	prnt [refT + refNCHAR]int
	son  [refT]int

	// bit input
	in     []byte
	inPos  int
	getbuf uint16
	getlen uint
	pad    int // number of zero bytes fed after the end of input

	// bit output
	out    []byte
	putbuf uint16
	putlen uint

	pLen  [64]byte
	pCode [64]byte
	dCode [256]byte
	dLen  [256]byte
}

// canonical prefix code for the lengths 3x1 4x3 5x8 6x12 7x24 8x16
func (z *refLZ) makeTables() {
	hist := [...]struct{ l, n int }{{3, 1}, {4, 3}, {5, 8}, {6, 12}, {7, 24}, {8, 16}}
	k := 0
	code := 0 // 8-bit left-aligned code
	for _, h := range hist {
		for i := 0; i < h.n; i++ {
			z.pLen[k] = byte(h.l)
			z.pCode[k] = byte(code)
			span := 1 << uint(8-h.l)
			for j := 0; j < span; j++ {
				z.dCode[code+j] = byte(k)
				z.dLen[code+j] = byte(h.l)
			}
			code += span
			k++
		}
	}
}

func (z *refLZ) initTree() {
	for i := refN + 1; i <= refN+256; i++ {
		z.rson[i] = refNIL
	}
	for i := 0; i < refN; i++ {
		z.dad[i] = refNIL
	}
}

func (z *refLZ) insertNode(r int) {
	cmp := 1
	key := z.textBuf[r:]
	p := refN + 1 + int(key[0])
	z.rson[r], z.lson[r] = refNIL, refNIL
	z.matchLength = 0
	for {
		if cmp >= 0 {
			if z.rson[p] != refNIL {
				p = z.rson[p]
			} else {
				z.rson[p] = r
				z.dad[r] = p
				return
			}
		} else {
			if z.lson[p] != refNIL {
				p = z.lson[p]
			} else {
				z.lson[p] = r
				z.dad[r] = p
				return
			}
		}
		i := 1
		for ; i < refF; i++ {
			cmp = int(key[i]) - int(z.textBuf[p+i])
			if cmp != 0 {
				break
			}
		}
		if i > refTHRESH {
			if i > z.matchLength {
				z.matchPosition = ((r - p) & (refN - 1)) - 1
				z.matchLength = i
				if z.matchLength >= refF {
					break
				}
			}
			if i == z.matchLength {
				c := ((r - p) & (refN - 1)) - 1
				if c < z.matchPosition {
					z.matchPosition = c
				}
			}
		}
	}
	z.dad[r] = z.dad[p]
	z.lson[r] = z.lson[p]
	z.rson[r] = z.rson[p]
	z.dad[z.lson[p]] = r
	z.dad[z.rson[p]] = r
	if z.rson[z.dad[p]] == p {
		z.rson[z.dad[p]] = r
	} else {
		z.lson[z.dad[p]] = r
	}
	z.dad[p] = refNIL
}

func (z *refLZ) deleteNode(p int) {
	if z.dad[p] == refNIL {
		return
	}
	var q int
	if z.rson[p] == refNIL {
		q = z.lson[p]
	} else if z.lson[p] == refNIL {
		q = z.rson[p]
	} else {
		q = z.lson[p]
		if z.rson[q] != refNIL {
			for {
				q = z.rson[q]
				if z.rson[q] == refNIL {
					break
				}
			}
			z.rson[z.dad[q]] = z.lson[q]
			z.dad[z.lson[q]] = z.dad[q]
			z.lson[q] = z.lson[p]
			z.dad[z.lson[p]] = q
		}
		z.rson[q] = z.rson[p]
		z.dad[z.rson[p]] = q
	}
	z.dad[q] = z.dad[p]
	if z.rson[z.dad[p]] == p {
		z.rson[z.dad[p]] = q
	} else {
		z.lson[z.dad[p]] = q
	}
	z.dad[p] = refNIL
}

func (z *refLZ) getBit() int {
	for z.getlen <= 8 {
		var i uint16
		if z.inPos < len(z.in) {
			i = uint16(z.in[z.inPos])
			z.inPos++
		} else {
			z.pad++
		}
		z.getbuf |= i << (8 - z.getlen)
		z.getlen += 8
	}
	i := z.getbuf
	z.getbuf <<= 1
	z.getlen--
	if i&0x8000 != 0 {
		return 1
	}
	return 0
}

func (z *refLZ) getByte() int {
	for z.getlen <= 8 {
		var i uint16
		if z.inPos < len(z.in) {
			i = uint16(z.in[z.inPos])
			z.inPos++
		} else {
			z.pad++
		}
		z.getbuf |= i << (8 - z.getlen)
		z.getlen += 8
	}
	i := z.getbuf
	z.getbuf <<= 8
	z.getlen -= 8
	return int(i >> 8)
}

func (z *refLZ) putcode(l int, c uint16) {
	z.putbuf |= c >> z.putlen
	z.putlen += uint(l)
	if z.putlen >= 8 {
		z.out = append(z.out, byte(z.putbuf>>8))
		z.putlen -= 8
		if z.putlen >= 8 {
			z.out = append(z.out, byte(z.putbuf))
			z.putlen -= 8
			z.putbuf = c << (uint(l) - z.putlen)
		} else {
			z.putbuf <<= 8
		}
	}
}

func (z *refLZ) startHuff() {
	for i := 0; i < refNCHAR; i++ {
		z.freq[i] = 1
		z.son[i] = i + refT
		z.prnt[i+refT] = i
	}
	i, j := 0, refNCHAR
	for j <= refR {
		z.freq[j] = z.freq[i] + z.freq[i+1]
		z.son[j] = i
		z.prnt[i] = j
		z.prnt[i+1] = j
		i += 2
		j++
	}
	z.freq[refT] = 0xffff
	z.prnt[refR] = 0
}

// number of adaptive-tree rebuilds performed by the reference codec (witness
// that a kernel reached the rebuild)
var refReconstCount int

func (z *refLZ) reconst() {
	refReconstCount++
	j := 0
	for i := 0; i < refT; i++ {
		if z.son[i] >= refT {
			z.freq[j] = (z.freq[i] + 1) / 2
			z.son[j] = z.son[i]
			j++
		}
	}
	i := 0
	for j = refNCHAR; j < refT; i, j = i+2, j+1 {
		k := i + 1
		f := z.freq[i] + z.freq[k]
		z.freq[j] = f
		for k = j - 1; f < z.freq[k]; k-- {
		}
		k++
		l := j - k
		// memmove(&freq[k+1], &freq[k], l); memmove(&son[k+1], &son[k], l)
		for m := l; m > 0; m-- {
			z.freq[k+m] = z.freq[k+m-1]
			z.son[k+m] = z.son[k+m-1]
		}
		z.freq[k] = f
		z.son[k] = i
	}
	for i = 0; i < refT; i++ {
		k := z.son[i]
		if k >= refT {
			z.prnt[k] = i
		} else {
			z.prnt[k] = i
			z.prnt[k+1] = i
		}
	}
}

func (z *refLZ) update(c int) {
	if z.freq[refR] == refMAXFREQ {
		z.reconst()
	}
	c = z.prnt[c+refT]
	for {
		z.freq[c]++
		k := z.freq[c]
		l := c + 1
		if k > z.freq[l] {
			for {
				l++
				if !(k > z.freq[l]) {
					break
				}
			}
			l--
			z.freq[c] = z.freq[l]
			z.freq[l] = k
			i := z.son[c]
			z.prnt[i] = l
			if i < refT {
				z.prnt[i+1] = l
			}
			j := z.son[l]
			z.son[l] = i
			z.prnt[j] = c
			if j < refT {
				z.prnt[j+1] = c
			}
			z.son[c] = j
			c = l
		}
		c = z.prnt[c]
		if c == 0 {
			break
		}
	}
}

func (z *refLZ) encodeChar(c int) {
	var i uint16
	j := 0
	k := z.prnt[c+refT]
	for {
		i >>= 1
		if k&1 != 0 {
			i += 0x8000
		}
		j++
		k = z.prnt[k]
		if k == refR {
			break
		}
	}
	z.putcode(j, i)
	z.update(c)
}

func (z *refLZ) encodePosition(c int) {
	i := c >> 6
	z.putcode(int(z.pLen[i]), uint16(z.pCode[i])<<8)
	z.putcode(6, uint16(c&0x3f)<<10)
}

func (z *refLZ) encodeEnd() {
	if z.putlen != 0 {
		z.out = append(z.out, byte(z.putbuf>>8))
	}
}

func (z *refLZ) decodeChar() int {
	c := z.son[refR]
	for c < refT {
		c += z.getBit()
		c = z.son[c]
	}
	c -= refT
	z.update(c)
	return c
}

func (z *refLZ) decodePosition() int {
	i := z.getByte()
	c := int(z.dCode[i]) << 6
	j := int(z.dLen[i])
	j -= 2
	for ; j > 0; j-- {
		i = (i << 1) + z.getBit()
	}
	return c | (i & 0x3f)
}

// refEncode returns the LZHUF body (without any header) of data.
func refEncode(data []byte) []byte {
	z := new(refLZ)
	z.makeTables()
	if len(data) == 0 {
		return nil
	}
	pos := 0
	z.startHuff()
	z.initTree()
	s := 0
	r := refN - refF
	for i := s; i < r; i++ {
		z.textBuf[i] = ' '
	}
	ln := 0
	for ; ln < refF && pos < len(data); ln++ {
		z.textBuf[r+ln] = data[pos]
		pos++
	}
	for i := 1; i <= refF; i++ {
		z.insertNode(r - i)
	}
	z.insertNode(r)
	for {
		if z.matchLength > ln {
			z.matchLength = ln
		}
		if z.matchLength <= refTHRESH {
			z.matchLength = 1
			z.encodeChar(int(z.textBuf[r]))
		} else {
			z.encodeChar(255 - refTHRESH + z.matchLength)
			z.encodePosition(z.matchPosition)
		}
		last := z.matchLength
		i := 0
		for ; i < last && pos < len(data); i++ {
			c := data[pos]
			pos++
			z.deleteNode(s)
			z.textBuf[s] = c
			if s < refF-1 {
				z.textBuf[s+refN] = c
			}
			s = (s + 1) & (refN - 1)
			r = (r + 1) & (refN - 1)
			z.insertNode(r)
		}
		for ; i < last; i++ {
			z.deleteNode(s)
			s = (s + 1) & (refN - 1)
			r = (r + 1) & (refN - 1)
			ln--
			if ln != 0 {
				z.insertNode(r)
			}
		}
		if ln <= 0 {
			break
		}
	}
	z.encodeEnd()
	return z.out
}

// refDecode decodes body until textsize bytes have been produced (a final
// match may overshoot, as in the C original).  pad reports how many zero
// bytes the bit reader had to invent after the end of the input, maxOut
// bounds the work for hostile sizes.
func refDecode(body []byte, textsize int, maxOut int) (out []byte, pad int) {
	out, pad, _ = refDecodeBits(body, textsize, maxOut)
	return
}

// refDecodeBits additionally reports how many bits of input the decoded
// symbols consumed (the 16-bit look-ahead of the C bit reader not counted).
func refDecodeBits(body []byte, textsize int, maxOut int) (out []byte, pad int, usedBits int) {
	z := new(refLZ)
	z.makeTables()
	z.in = body
	if textsize <= 0 {
		return nil, 0, 0
	}
	z.startHuff()
	for i := 0; i < refN-refF; i++ {
		z.textBuf[i] = ' '
	}
	r := refN - refF
	for count := 0; count < textsize && count < maxOut; {
		c := z.decodeChar()
		if c < 256 {
			z.out = append(z.out, byte(c))
			z.textBuf[r] = byte(c)
			r = (r + 1) & (refN - 1)
			count++
		} else {
			i := (r - z.decodePosition() - 1) & (refN - 1)
			j := c - 255 + refTHRESH
			for k := 0; k < j; k++ {
				c = int(z.textBuf[(i+k)&(refN-1)])
				z.out = append(z.out, byte(c))
				z.textBuf[r] = byte(c)
				r = (r + 1) & (refN - 1)
				count++
			}
		}
	}
	return z.out, z.pad, 8*(z.inPos+z.pad) - int(z.getlen)
}

// bitwise CRC-16/XMODEM (poly 0x1021, init 0, no reflection, no final xor)
func refCRC16(p []byte) uint16 {
	var crc uint16
	for _, b := range p {
		crc ^= uint16(b) << 8
		for i := 0; i < 8; i++ {
			if crc&0x8000 != 0 {
				crc = crc<<1 ^ 0x1021
			} else {
				crc <<= 1
			}
		}
	}
	return crc
}
