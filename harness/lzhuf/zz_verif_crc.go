package lzhuf

// C07 K3(a): one-step lemma — the table-driven update equals eight bitwise
// steps of CRC-16/XMODEM (poly 0x1021) in augmented-message form,
// for all 2^16 sums and all 2^8 bytes.
func refCRCStep(sum uint16, c byte) uint16 {
	for i := 0; i < 8; i++ {
		top := sum&0x8000 != 0
		sum = sum<<1 | uint16(c>>7)
		c <<= 1
		if top {
			sum ^= 0x1021
		}
	}
	return sum
}

func H_crc_step() {
	sum := symUint16()
	c := symByte()
	got := udpCRC16(int(c), crc16(sum))
	want := refCRCStep(sum, c)
	symAssert(uint16(got) == want, "crc-step-equals-bitwise-xmodem")
	symReach("end")
}
