package lzhuf

// C08 K3 / C07 K2c: a match code with an arbitrary 12-bit position early in the
// stream, i.e. also positions no canonical encoder emits (references into the
// part of the window that has not been written yet, positions beyond the
// 2048-byte window).  The payload is built with the reference encoder's code
// tables: NPRE literals, then one match symbol of length LEN at position POS
// (case split over all 4096 positions: the window index is data-dependent).
// The header stays symbolic as in H_reader_safe: all 2^32 declared sizes, all
// 2^16 CRC values.  Obligations: those of H_reader_safe (checkReader).
func H_reader_match() {
	npre := symInt(0, symParam("NPRE", 1))
	length := [...]int{3, 60, 4, 59}[symInt(0, symParam("NLEN", 2)-1)]
	pos := symInt(0, 4095)
	b2 := symInt(0, 1) == 1

	z := new(refLZ)
	z.makeTables()
	z.startHuff()
	for i := 0; i < npre; i++ {
		z.encodeChar('x')
	}
	z.encodeChar(255 - refTHRESH + length)
	z.encodePosition(pos)
	z.encodeEnd()
	in := symBytes(4)
	if symParam("EXACT", 0) == 1 {
		// declared size = what the payload decodes to (concrete header)
		in = []byte{byte(npre + length), 0, 0, 0}
	}
	in = append(in, z.out...)
	hdr := 4
	var delta uint16
	if b2 {
		delta = uint16(symByte()) | uint16(symByte())<<8
		c := refCRCFold(in) ^ delta
		in = append([]byte{byte(c), byte(c >> 8)}, in...)
		hdr = 6
	}
	checkReader(in, b2, hdr, delta, [...]int{64, 1}[symInt(0, 1)], symInt(0, symParam("STOP", 1)))
}
