package lzhuf

import "io"

var errEOF = io.EOF

// C08 K3 / C07 K2c: a match code with an arbitrary 12-bit position early in the
// stream, i.e. also positions no canonical encoder emits (references into the
// part of the window that has not been written yet, positions beyond the
// 2048-byte window).  The payload is built with the reference encoder's code
// tables: NPRE literals, then one match symbol of length LEN at position POS
// (case split over all 4096 positions: the window index is data-dependent).
// The header stays symbolic as in H_reader_safe: all 2^32 declared sizes, all
// 2^16 CRC values.  Obligations: those of H_reader_safe (checkReader).
func H_reader_match() {
	if symParam("PREV", 0) == 1 {
		// another message was decompressed (and its Reader closed) earlier in
		// this process: nothing of it may show in what follows
		prev := []byte("the previous message: QQQQQQQQQQQQQQQQQQQQQQQQQQQQQQQQQQQQQQQQQQQQQQQQQQQQQQQQQQQQQQQQQQQQQQQQQQ")
		pz, err := compress(prev, len(prev), true)
		symAssert(err == nil, "writer-close-ok")
		out, rerr, cerr := decompress(pz, true, 64, len(prev)+3)
		symAssert(rerr == nil && cerr == nil && sameBytes(out, prev), "roundtrip-reproduces-input")
	}
	npre := symInt(0, symParam("NPRE", 1))
	length := [...]int{3, 60, 4, 59}[symInt(0, symParam("NLEN", 2)-1)]
	pos := symInt(symParam("POSMIN", 0), symParam("POSMAX", 4095))
	b2 := symInt(0, 1) == 1

	z := new(refLZ)
	z.makeTables()
	z.startHuff()
	for i := 0; i < npre; i++ {
		z.encodeChar('x')
	}
	z.encodeChar(255 - refTHRESH + length)
	z.encodePosition(pos)
	z.encodeEnd()
	in := symBytes(4)
	if symParam("EXACT", 0) == 1 {
		// declared size = what the payload decodes to (concrete header)
		in = []byte{byte(npre + length), 0, 0, 0}
	}
	in = append(in, z.out...)
	hdr := 4
	var delta uint16
	if b2 {
		delta = uint16(symByte()) | uint16(symByte())<<8
		c := refCRCFold(in) ^ delta
		in = append([]byte{byte(c), byte(c >> 8)}, in...)
		hdr = 6
	}
	checkReader(in, b2, hdr, delta, [...]int{64, 1}[symInt(0, 1)], symInt(0, symParam("STOP", 1)))
}

// a source with a selectable io.Reader convention: everything at once and
// then (0, EOF); the last bytes together with io.EOF; one byte per call; a
// (0, nil) before every byte.  All of them are legal io.Readers.
type modeReader struct {
	b    []byte
	mode int
	flip bool
}

func (r *modeReader) Read(p []byte) (int, error) {
	if len(p) == 0 {
		return 0, nil
	}
	switch r.mode {
	case 1: // data and EOF in the same call
		n := copy(p, r.b)
		r.b = r.b[n:]
		if len(r.b) == 0 {
			return n, errEOF
		}
		return n, nil
	case 2, 3:
		if r.mode == 3 {
			r.flip = !r.flip
			if r.flip {
				return 0, nil
			}
		}
		if len(r.b) == 0 {
			return 0, errEOF
		}
		p[0] = r.b[0]
		r.b = r.b[1:]
		return 1, nil
	}
	if len(r.b) == 0 {
		return 0, errEOF
	}
	n := copy(p, r.b)
	r.b = r.b[n:]
	return n, nil
}

// C06 K1e / C07: the decompressor reproduces the input whatever (legal)
// convention the compressed source follows when delivering its bytes.
func H_roundtrip_sources() {
	N := symParam("N", 3)
	n := symInt(0, N)
	in := make([]byte, n)
	for i := range in {
		in[i] = symAlphaByte(5)
	}
	b2 := symInt(0, 1) == 1
	z, err := compress(in, n, b2)
	symAssert(err == nil, "writer-close-ok")
	src := &modeReader{b: z, mode: symInt(0, 3)}
	bufsz := [...]int{64, 1}[symInt(0, 1)]
	r, err := NewReader(src, b2)
	symAssert(err == nil, "header-accepted")
	var out []byte
	for calls := 0; ; calls++ {
		symAssert(calls <= n+4, "read-loop-terminates")
		p := make([]byte, bufsz)
		m, rerr := r.Read(p)
		out = append(out, p[:m]...)
		if rerr != nil {
			symAssert(rerr == errEOF, "reader-no-error")
			break
		}
	}
	symAssert(r.Close() == nil, "reader-close-ok")
	symAssert(sameBytes(out, in), "roundtrip-reproduces-input")
	symReach("end")
}

// C06 K1f / C07: run-length and short-period inputs far longer than the window
// (the best case of the codec: about 47 output bytes per compressed byte).
func H_roundtrip_runs() {
	R := [...]int{2100, 9000, 20000, 70000}[symInt(0, symParam("NR", 2)-1)]
	b := symAlphaByte(5)
	period := symInt(1, 3)
	in := make([]byte, R)
	for i := range in {
		if i%period == 0 {
			in[i] = b
		} else {
			in[i] = byte('x' + i%period)
		}
	}
	symBudget(2000000000)
	b2 := symInt(0, 1) == 1
	hdr := 4
	if b2 {
		hdr = 6
	}
	z, err := compress(in, len(in), b2)
	symAssert(err == nil, "writer-close-ok")
	// read buffer sizes that end inside matches at ever changing offsets (the
	// matches of a run cross the end of the ring buffer again and again)
	bufsz := 64
	if R <= 9000 {
		bufsz = [...]int{64, 7, 13, 100}[symInt(0, 3)]
	}
	out, rerr, cerr := decompress(z, b2, bufsz, len(in)+3)
	symAssert(rerr == nil, "reader-no-error")
	symAssert(cerr == nil, "reader-close-ok")
	symAssert(sameBytes(out, in), "roundtrip-reproduces-input")
	ref, _ := refDecode(z[hdr:], len(in), len(in)+64)
	symAssert(sameBytes(ref, in), "reference-decoder-reproduces-input")
	symReach("end")
}
