package lzhuf

import (
	"bytes"
	"io"
)

// Specification fold of the B2 checksum: the step function folded over the
// bytes followed by two zero bytes (augmented-message form).  The step itself
// is the library's udpCRC16, which H_crc_step proves equal to eight bitwise
// CRC-16/XMODEM steps for all arguments; what this fold pins down is *which*
// bytes are covered and in which order.
func refCRCFold(p []byte) uint16 {
	var sum crc16
	for _, c := range p {
		sum = udpCRC16(int(c), sum)
	}
	sum = udpCRC16(0, sum)
	sum = udpCRC16(0, sum)
	return uint16(sum)
}

// C08 K1: Reader on arbitrary input.
//   header fully symbolic (CRC 2 bytes when B2, size = all 2^32 values),
//   payload of k symbolic bytes, k <= K, every truncation of the input,
//   read buffer size from {1,2,3,64}.
func H_reader_safe() {
	K := symParam("K", 1)
	b2 := symInt(0, 1) == 1
	hdr := 4
	if b2 {
		hdr = 6
	}
	n := symInt(0, hdr+K) // length of the (possibly truncated) input
	in := symBytes(n)
	var delta uint16
	if b2 && n >= 2 {
		// header CRC = correct CRC xor delta, delta ranging over all 2^16 values
		// (a bijection of the 2^16 header values that keeps the solver away
		// from inverting the CRC)
		delta = uint16(in[0]) | uint16(in[1])<<8
		want := refCRCFold(in[2:]) ^ delta
		in[0], in[1] = byte(want), byte(want>>8)
	}
	bufsz := [...]int{1, 64, 3, 2}[symInt(0, symParam("BUFS", 4)-1)]
	checkReader(in, b2, hdr, delta, bufsz, symInt(0, symParam("STOP", 1)))
}

// the C08 obligations for one input: bounded termination, no panic, no more
// than the declared size, and a sound Close verdict (size, CRC as
// correct-xor-delta, canonical decoding, no invented bits)
// stop > 0: the caller gives up after that many Read calls and calls Close
func checkReader(in []byte, b2 bool, hdr int, delta uint16, bufsz int, stop int) {
	n := len(in)

	r, err := NewReader(bytes.NewReader(in), b2)
	if err != nil {
		symReach("header-error")
		return
	}
	declared := int(int32(uint32(in[hdr-4]) | uint32(in[hdr-3])<<8 | uint32(in[hdr-2])<<16 | uint32(in[hdr-1])<<24))
	limit := declared
	if limit < 0 {
		limit = 0
	}
	payload := n - hdr
	// every decoded symbol consumes at least one bit and yields at most 60 bytes
	maxOut := 60 * (8*payload + 1)
	var out []byte
	zero := 0
	for calls := 1; ; calls++ {
		p := make([]byte, bufsz)
		m, err := r.Read(p)
		symAssert(m >= 0 && m <= len(p), "read-count-in-range")
		out = append(out, p[:m]...)
		symAssert(len(out) <= limit, "no-more-than-declared-size")
		symAssert(len(out) <= maxOut, "output-bounded-by-input")
		if err != nil {
			_ = io.EOF
			break
		}
		if m == 0 {
			zero++
			// a repeated (0, nil) with len(p) > 0 never ends: io.Copy spins forever
			symAssert(zero < 3, "read-loop-terminates (repeated (0,nil))")
		} else {
			zero = 0
		}
		if calls == stop {
			symReach("stopped-early")
			break
		}
	}
	symReach("read-done")
	if cerr := r.Close(); cerr == nil {
		symReach("close-ok")
		symAssert(len(out) == declared, "close-ok-implies-size-matches")
		if b2 {
			if declared == 0 && payload > 0 {
				// bytes after a zero-size header are never pulled through the CRC
				symAssert(delta == 0, "close-ok-implies-crc-matches (zero declared size, trailing bytes)")
			} else {
				symAssert(delta == 0, "close-ok-implies-crc-matches")
			}
		}
		ref, _, used := refDecodeBits(in[hdr:], len(out), maxOut+64)
		symAssert(len(ref) >= len(out), "close-ok-implies-canonical-length")
		// a stream cut inside a symbol has no canonical decoding: the zero bits
		// the decoder invents past the end of the input are not part of the stream
		symAssert(used <= 8*payload, "close-ok-implies-every-decoded-symbol-was-fully-present-in-the-input")
		same := true
		for i := range out {
			if i < len(ref) && ref[i] != out[i] {
				same = false
			}
		}
		symAssert(same, "close-ok-implies-canonical-decoding")
	} else {
		symReach("close-error")
	}
	symReach("end")
}

// C08 K2 / C07 K3c: the position decoder on arbitrary bits.  A match symbol is
// followed by a position code of 8 table-indexed bits plus 1..6 verbatim bits;
// hostile input reaches every one of the 256 table rows, canonical streams only
// some.  Input: 0..2 symbolic bytes after a plain header (shorter inputs end
// inside the code: the bit reader then supplies zeros and records its error).
func H_decode_position() {
	n := symInt(0, 2)
	body := symBytes(n)
	in := append([]byte{100, 0, 0, 0}, body...)
	d, err := NewReader(bytes.NewReader(in), false)
	symAssert(err == nil, "header-accepted")
	pos := d.decodePosition()
	// 6 table bits + 6 verbatim bits; Read reduces it modulo the window size
	symAssert(pos >= 0 && pos < 64*64, "decoded-position-is-twelve-bits")
	if n == 2 {
		symAssert(d.r.Err() == nil, "fourteen-bits-suffice")
		z := new(refLZ)
		z.makeTables()
		z.in = body
		symAssert(pos == z.decodePosition(), "position-code-canonical")
	} else {
		symAssert(d.r.Err() != nil, "exhausted-input-recorded")
	}
	symReach("end")
}
