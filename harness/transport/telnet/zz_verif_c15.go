package telnet

import (
	"bytes"
	"context"
	"errors"
	"github.com/la5nta/wl2k-go/transport"
	"io"
	"net"
	"strings"
	"time"
)

type tAddr struct{}

func (tAddr) Network() string { return "tcp" }
func (tAddr) String() string  { return "verif:1" }

var errDeadline = errors.New("i/o timeout (deadline exceeded)")

// tConn: in-memory net.Conn.  The peer's bytes arrive as scripted segments
// (one Read never returns bytes of two segments); with nothing to deliver Read
// blocks until Close or the read deadline, like a TCP socket.
type tConn struct {
	segs      chan []byte
	left      []byte
	out       []byte
	closed    chan struct{}
	isClosed  bool
	deadline  time.Time // read deadline
	wdeadline time.Time
	eofAfter  bool // peer closes after the last segment
}

func newTConn(segments [][]byte, eofAfter bool) *tConn {
	c := &tConn{segs: make(chan []byte, len(segments)+1), closed: make(chan struct{}), eofAfter: eofAfter}
	for _, s := range segments {
		if len(s) > 0 {
			c.segs <- s
		}
	}
	if eofAfter {
		close(c.segs)
	}
	return c
}

func (c *tConn) Read(p []byte) (int, error) {
	if len(c.left) == 0 {
		var timeout <-chan time.Time
		if !c.deadline.IsZero() {
			d := time.Until(c.deadline)
			if d <= 0 {
				return 0, errDeadline
			}
			t := time.NewTimer(d)
			defer t.Stop()
			timeout = t.C
		}
		if c15Pace > 0 {
			// the peer lets some time pass before its next segment
			select {
			case <-time.After(c15Pace):
			case <-c.closed:
				return 0, net.ErrClosed
			case <-timeout:
				return 0, errDeadline
			}
		}
		select {
		case s, ok := <-c.segs:
			if !ok {
				return 0, io.EOF
			}
			c.left = s
		case <-c.closed:
			return 0, net.ErrClosed
		case <-timeout:
			return 0, errDeadline
		}
	}
	n := copy(p, c.left)
	c.left = c.left[n:]
	return n, nil
}

func (c *tConn) Write(p []byte) (int, error) {
	if c.isClosed {
		return 0, net.ErrClosed
	}
	if !c.wdeadline.IsZero() && time.Until(c.wdeadline) <= 0 {
		return 0, errDeadline
	}
	c.out = append(c.out, p...)
	return len(p), nil
}

func (c *tConn) Close() error {
	if !c.isClosed {
		c.isClosed = true
		close(c.closed)
	}
	return nil
}
func (c *tConn) LocalAddr() net.Addr                { return tAddr{} }
func (c *tConn) RemoteAddr() net.Addr               { return tAddr{} }
func (c *tConn) SetDeadline(t time.Time) error      { c.deadline, c.wdeadline = t, t; return nil }
func (c *tConn) SetReadDeadline(t time.Time) error  { c.deadline = t; return nil }
func (c *tConn) SetWriteDeadline(t time.Time) error { c.wdeadline = t; return nil }

var c15Conn *tConn

// pause of the scripted peer before each of its segments (0: none)
var c15Pace time.Duration

// the TCP dial is replaced by the in-memory connection (engine); natively the
// harness serves the same transcript on a loopback listener
//
//verif:stub (*net.Dialer).DialContext = stubDial
func stubDial(d *net.Dialer, ctx context.Context, network, addr string) (net.Conn, error) {
	return c15Conn, nil
}

// split b into segments at the given cut positions
func segments(b []byte, cuts ...int) [][]byte {
	var out [][]byte
	last := 0
	for _, c := range cuts {
		if c > last && c < len(b) {
			out = append(out, b[last:c])
			last = c
		}
	}
	return append(out, b[last:])
}

func symCallOrPass(n int) string {
	b := make([]byte, n)
	for i := range b {
		b[i] = symByte()
		symAssume(b[i] != '\r' && b[i] != '\n' && b[i] > 0x20 && b[i] < 0x7f)
	}
	return string(b)
}

// native side of the dial stub: a loopback TCP server playing the transcript
func c15Serve(segs [][]byte, eofAfter bool, got *[]byte, done chan struct{}) string {
	ln, err := net.Listen("tcp", "127.0.0.1:0")
	if err != nil {
		panic(err)
	}
	go func() {
		defer close(done)
		conn, err := ln.Accept()
		ln.Close()
		if err != nil {
			return
		}
		go func() {
			buf := make([]byte, 256)
			for {
				n, err := conn.Read(buf)
				*got = append(*got, buf[:n]...)
				if err != nil {
					return
				}
			}
		}()
		for _, s := range segs {
			time.Sleep(c15Pace)
			conn.Write(s)
			time.Sleep(30 * time.Millisecond) // keep the segments apart
		}
		if eofAfter {
			conn.Close()
		} else {
			time.Sleep(3 * time.Second)
			conn.Close()
		}
	}()
	return ln.Addr().String()
}

// C15 K1: client login — payload sent by the server right after the password
// prompt (possibly in the same TCP segment) reaches the caller complete
func H_c15_client() {
	call := symCallOrPass(symInt(1, 2))
	pass := symCallOrPass(symInt(1, 2))
	payload := symBytes(symInt(0, symParam("P", 3)))
	transcript := []byte("Welcome\rCallsign :\rPassword :\r")
	login := len(transcript)
	transcript = append(transcript, payload...)
	// segmentation: one cut inside the prompts, one cut around the end of the login text
	cut1 := symInt(1, 12)
	cut2 := login + symInt(-2, len(payload)) // < login: mid-prompt; = login: payload in its own segment; > login: payload split
	if symInt(0, 1) == 1 {
		cut2 = len(transcript) + 1 // payload coalesced with the last prompt
	}
	segs := segments(transcript, cut1, cut2)
	var conn net.Conn
	var err error
	var sent []byte
	if symEngine() {
		c15Conn = newTConn(segs, true)
		conn, err = DialContext(context.Background(), "verif:1", call, pass)
	} else {
		done := make(chan struct{})
		addr := c15Serve(segs, true, &sent, done)
		conn, err = DialContext(context.Background(), addr, call, pass)
	}
	symAssert(err == nil && conn != nil, "login-ok")
	got, rerr := io.ReadAll(conn)
	symAssert(rerr == nil || rerr == io.EOF, "post-login-read-ok")
	symAssert(bytes.Equal(got, payload), "every-byte-sent-after-login-arrives-unmodified-and-complete")
	if symEngine() {
		sent = c15Conn.out
	} else {
		time.Sleep(100 * time.Millisecond)
	}
	symAssert(string(sent) == call+"\r"+pass+"\r", "client-sends-callsign-and-password")
	symReach("end")
}

type tListener struct{ conn net.Conn }

func (l tListener) Accept() (net.Conn, error) { return l.conn, nil }
func (l tListener) Close() error              { return nil }
func (l tListener) Addr() net.Addr            { return tAddr{} }

// C15 K2: server side — RemoteCall and post-login payload
func H_c15_server() {
	call := symCallOrPass(symInt(1, 2))
	pass := symCallOrPass(symInt(1, 2))
	payload := symBytes(symInt(0, symParam("P", 3)))
	transcript := []byte(call + "\r" + pass + "\r")
	login := len(transcript)
	transcript = append(transcript, payload...)
	cut1 := symInt(1, login-1)
	cut2 := login + symInt(0, len(payload))
	if symInt(0, 1) == 1 {
		cut2 = len(transcript) + 1
	}
	c := newTConn(segments(transcript, cut1, cut2), true)
	ln := listener{tListener{c}}
	conn, err := ln.Accept()
	symAssert(err == nil, "accept-ok")
	tc, ok := conn.(interface{ RemoteCall() string })
	symAssert(ok && tc.RemoteCall() == call, "accepted-connection-reports-the-diallers-callsign")
	got, rerr := io.ReadAll(conn)
	symAssert(rerr == nil || rerr == io.EOF, "post-login-read-ok")
	symAssert(bytes.Equal(got, payload), "every-byte-sent-after-login-arrives-unmodified-and-complete")
	symAssert(strings.HasPrefix(string(c.out), "Callsign :\rPassword :\r"), "server-prompts")
	symReach("end")
}

// C15 K3: dialling returns no later than its deadline whatever the server does
func H_c15_deadline() {
	var segs [][]byte
	eof := false
	c15Pace = 0
	switch symInt(0, 6) {
	case 6: // a talkative server that never prompts: a line every 1.5 s (an inactivity timeout would never fire)
		c15Pace = 1500 * time.Millisecond
		for i := 0; i < 3; i++ {
			segs = append(segs, []byte("Welcome to the node, line "+string(rune('a'+i))+"\r"))
		}
	case 5: // a server that never prompts but keeps talking (banner / MOTD lines), then falls silent
		for i := 0; i < 12; i++ {
			segs = append(segs, []byte("Welcome to the node, line "+string(rune('a'+i))+"\r"))
		}
	case 0: // silent server
	case 1: // partial prompt, then silence
		segs = [][]byte{[]byte("Callsi")}
	case 2: // callsign prompt only
		segs = [][]byte{[]byte("Callsign :\r")}
	case 3: // garbage
		segs = [][]byte{symBytes(symInt(1, symParam("G", 2)))}
	case 4: // immediate close
		eof = true
	}
	const D = 2 * time.Second
	// the limit comes from the context, from the Dialer's Timeout while the
	// caller's context allows more, or from the URL's dial_timeout parameter
	via := symInt(0, 2)
	ctx, cancel := context.WithTimeout(context.Background(), D)
	if via != 0 {
		cancel()
		ctx, cancel = context.WithTimeout(context.Background(), 20*D)
	}
	defer cancel()
	addr := "verif:1"
	if symEngine() {
		c15Conn = newTConn(segs, eof)
	} else {
		var sent []byte
		addr = c15Serve(segs, eof, &sent, make(chan struct{}))
	}
	start := time.Now()
	var conn net.Conn
	var err error
	switch via {
	case 0:
		conn, err = DialContext(ctx, addr, "N0CALL", "pw")
	case 1:
		u, perr := transport.ParseURL("telnet://N0CALL:pw@" + addr + "/wl2k")
		symAssert(perr == nil, "url-ok")
		conn, err = Dialer{Timeout: D}.DialURLContext(ctx, u)
	case 2:
		u, perr := transport.ParseURL("telnet://N0CALL:pw@" + addr + "/wl2k?dial_timeout=2s")
		symAssert(perr == nil, "url-ok")
		conn, err = Dialer{Timeout: 10 * D}.DialURLContext(ctx, u)
	}
	elapsed := time.Since(start)
	symAssert(elapsed <= D+500*time.Millisecond, "dial-returns-no-later-than-its-deadline")
	symAssert(err != nil && conn == nil, "failed-login-returns-an-error")
	symReach("end")
}

// C15 K4: the connection handed over by a successful dial is not bound by the
// dial deadline any more: bytes written and bytes arriving after that instant
// still get through.
func H_c15_after_deadline() {
	payload := symBytes(symInt(1, symParam("P", 2)))
	const D = time.Second
	ctx, cancel := context.WithTimeout(context.Background(), D)
	defer cancel()
	login := []byte("Callsign :\rPassword :\r")
	var conn net.Conn
	var err error
	var sent []byte
	if symEngine() {
		c15Conn = newTConn([][]byte{login}, false)
		conn, err = DialContext(ctx, "verif:1", "N0CALL", "pw")
	} else {
		ln, lerr := net.Listen("tcp", "127.0.0.1:0")
		if lerr != nil {
			panic(lerr)
		}
		go func() {
			c, aerr := ln.Accept()
			ln.Close()
			if aerr != nil {
				return
			}
			go func() {
				buf := make([]byte, 256)
				for {
					n, rerr := c.Read(buf)
					sent = append(sent, buf[:n]...)
					if rerr != nil {
						return
					}
				}
			}()
			c.Write(login)
			time.Sleep(D + 900*time.Millisecond)
			c.Write(payload)
			time.Sleep(300 * time.Millisecond)
			c.Close()
		}()
		conn, err = DialContext(ctx, ln.Addr().String(), "N0CALL", "pw")
	}
	symAssert(err == nil && conn != nil, "login-ok")
	time.Sleep(D + 500*time.Millisecond) // the dial deadline is in the past now
	n, werr := conn.Write(payload)
	symAssert(werr == nil && n == len(payload), "write-after-the-dial-deadline-succeeds")
	if symEngine() {
		c15Conn.segs <- payload // late data from the server, then it closes
		close(c15Conn.segs)
	}
	got, rerr := io.ReadAll(conn)
	symAssert((rerr == nil || rerr == io.EOF) && bytes.Equal(got, payload), "bytes-arriving-after-the-dial-deadline-are-delivered")
	if symEngine() {
		sent = c15Conn.out
	} else {
		time.Sleep(100 * time.Millisecond)
	}
	symAssert(string(sent) == "N0CALL\rpw\r"+string(payload), "every-byte-sent-after-login-arrives-unmodified-and-complete")
	symReach("end")
}
