package ardop

import (
	"bufio"
	"bytes"
	"io"
)

// ARDOP host-interface CRC as specified in the ARDOP protocol document
// (GenCRC16: register 0xFFFF, 16-bit shift register, feedback 0x8810, data bit
// shifted into the LSB) restated bit-serially.
func refCRC(data []byte) uint16 {
	reg := uint32(0xffff)
	for _, b := range data {
		for bit := 7; bit >= 0; bit-- {
			msb := reg&0x8000 != 0
			reg = (reg << 1) & 0xffff
			reg |= uint32(b>>uint(bit)) & 1
			if msb {
				reg ^= 0x8810
			}
		}
	}
	return uint16(reg)
}

// C14 K1: CRC over every input of 0..N bytes
func H_c14_crc() {
	N := symParam("N", 2)
	data := symBytes(symInt(0, N))
	symAssert(crc16Sum(data) == refCRC(data), "crc16-equals-ardop-specification")
	symReach("end")
}

// reference host frames
func refDataFrame(serial bool, typ string, payload []byte) []byte {
	var b []byte
	if serial {
		b = append(b, 'd', ':')
	}
	body := append([]byte{byte((len(payload) + 3) >> 8), byte(len(payload) + 3)}, typ...)
	body = append(body, payload...)
	b = append(b, body...)
	if serial {
		c := refCRC(body)
		b = append(b, byte(c>>8), byte(c))
	}
	return b
}

// C14 K2a: TNC->host data frames and command frames are decoded (serial mode
// with CRC and TCP mode), payload equal
func H_c14_decode() {
	serial := symInt(0, 1) == 1
	payload := symBytes(symInt(0, symParam("P", 3)))
	typ := [...]string{"ARQ", "FEC", "IDF", "ERR"}[symInt(0, 3)]
	raw := refDataFrame(serial, typ, payload)
	// the host link delivers the frame in two pieces, split at every position
	split := symInt(1, len(raw))
	rd := bufio.NewReader(&splitReader{b: append([]byte(nil), raw...), first: split})
	var fType byte = 'd'
	if serial {
		fType, _ = rd.ReadByte()
		rd.ReadByte()
	}
	f, err := readFrameOfType(fType, rd, !serial)
	symAssert(err == nil, "conforming-data-frame-accepted")
	d, ok := f.(dFrame)
	symAssert(ok && d.dataType == typ && bytes.Equal(d.data, payload), "data-frame-type-and-payload")
	symAssert(d.ARQFrame() == (typ == "ARQ"), "arq-flag")

	// command frame written by the host side helper and read back
	var w bytes.Buffer
	cmd := "BUFFER " + string([]byte{'0' + byte(symInt(0, 9))})
	err = writeCtrlFrame(!serial, &w, "%s", cmd)
	symAssert(err == nil, "writeCtrlFrame-ok")
	out := w.Bytes()
	want := []byte(cmd + "\r")
	if serial {
		c := refCRC(want)
		want = append(append([]byte("C:"), want...), byte(c>>8), byte(c))
	}
	symAssert(bytes.Equal(out, want), "command-frame-bytes (prefix, CR, big-endian CRC over the payload)")
	rd2 := bufio.NewReader(bytes.NewReader(out))
	if serial {
		rd2.ReadByte()
		rd2.ReadByte()
	}
	f2, err := readFrameOfType('c', rd2, !serial)
	symAssert(err == nil && string(f2.(cmdFrame)) == cmd, "command-frame-read-back")
	symReach("end")
}

// C14 K3a: arbitrary bytes on the TNC->host stream never crash the decoder
func H_c14_decode_robust() {
	L := symParam("L", 5)
	serial := symInt(0, 1) == 1
	in := symBytes(symInt(0, L))
	fType := [...]byte{'c', 'd', '*'}[symInt(0, 2)]
	if fType == '*' && len(in) >= 2 {
		// serial prefix: type byte from the interesting set, then any byte
		symAssume(in[0] == 'c' || in[0] == 'd' || in[0] == '*' || in[0] == 'x')
	}
	lenAt := -1
	if fType == 'd' {
		lenAt = 0
	} else if fType == '*' {
		lenAt = 2
	}
	if lenAt >= 0 && len(in) >= lenAt+2 {
		// the big-endian length field ranges over boundary values (pinned): tiny
		// lengths and the values that wrap the uint16 "+2"; in TCP mode (no CRC
		// pass over the announced buffer) also the largest lengths
		hi, lo := in[lenAt], in[lenAt+1]
		symAssume(lo == 0 || lo == 1 || lo == 2 || lo == 3 || lo == 5 || lo == 0xfd || lo == 0xfe || lo == 0xff)
		if serial || fType == '*' {
			symAssume((hi == 0 && lo <= 5) || (hi == 0xff && lo >= 0xfe))
		} else {
			symAssume(hi == 0 || hi == 1 || hi == 0xff)
		}
	}
	rd := bufio.NewReader(bytes.NewReader(in))
	symLimitAlloc(1 << 17)
	f, err := readFrameOfType(fType, rd, !serial)
	_, _ = f, err
	symReach("end")
}

// C14 K3b: control messages: every keyword with a missing / arbitrary argument
func H_c14_parse_ctrl() {
	words := [...]string{"PTT", "BUFFER", "NEWSTATE", "FAULT", "BUSY", "CONNECTED", "MYAUX", "STATE", "VERSION", "DRIVELEVEL", "CODEC", "DISCONNECTED", "x"}
	w := words[symInt(0, len(words)-1)]
	str := w
	switch symInt(0, 2) {
	case 0:
	case 1:
		str += " "
	case 2:
		str += " " + symString(symInt(1, symParam("L", 2)))
	}
	msg := parseCtrlMsg(str)
	_ = msg
	symReach("end")
}

func H_c14_parse_ctrl_any() {
	str := symString(symInt(0, symParam("L", 4)))
	_ = parseCtrlMsg(str)
	symReach("end")
}

// C14 K4: tncConn.Read with every caller buffer size
func H_c14_conn_read() {
	F := symParam("F", 2)
	ch := make(chan []byte, 8)
	var all []byte
	nf := symInt(1, F)
	for i := 0; i < nf; i++ {
		d := symBytes(symInt(1, 3))
		all = append(all, d...)
		ch <- d
	}
	close(ch)
	conn := &tncConn{dataIn: ch}
	bufsz := symInt(1, 4)
	var got []byte
	for calls := 0; ; calls++ {
		symAssert(calls <= len(all)+nf+2, "read-loop-terminates")
		p := make([]byte, bufsz)
		n, err := conn.Read(p)
		symAssert(n >= 0 && n <= len(p), "read-count-in-range")
		got = append(got, p[:n]...)
		if err != nil {
			symAssert(err == io.EOF, "eof-after-last-payload")
			break
		}
	}
	symAssert(bytes.Equal(got, all), "read-yields-the-concatenated-arq-payloads-in-order")
	symReach("end")
}

// C14 K2b/K5: tncConn.Write framing, CRCFAULT retransmission, Flush after BUFFER 0
func H_c14_conn_write() {
	serial := symInt(0, 1) == 1
	faults := symInt(0, 2) // number of CRCFAULT answers before the BUFFER update
	p := symBytes(symInt(0, symParam("P", 3)))
	dataOut := make(chan []byte, 8)
	conn := &tncConn{dataOut: dataOut, ctrlIn: newBroadcaster(), eofChan: make(chan struct{}), isTCP: !serial}
	type res struct {
		n   int
		err error
	}
	done := make(chan res, 1)
	go func() {
		n, err := conn.Write(p)
		done <- res{n, err}
	}()
	var frames [][]byte
	for i := 0; i <= faults; i++ {
		frames = append(frames, <-dataOut)
		if i < faults {
			conn.ctrlIn.Send(ctrlMsg{cmd: cmdCRCFault})
		} else {
			conn.ctrlIn.Send(ctrlMsg{cmd: cmdBuffer, value: len(p)})
			conn.updateBuffer(len(p))
		}
	}
	r := <-done
	symAssert(r.err == nil && r.n == len(p), "write-returns-bytes-accepted")
	want := []byte{byte(len(p) >> 8), byte(len(p))}
	want = append(want, p...)
	if serial {
		c := refCRC(want)
		want = append(append([]byte("D:"), want...), byte(c>>8), byte(c))
	}
	for _, f := range frames {
		symAssert(bytes.Equal(f, want), "data-frame-bytes (prefix, big-endian length, payload, CRC); retransmitted identically on CRCFAULT")
	}
	// Flush returns only after the TNC reports an empty buffer
	flushed := make(chan error, 1)
	go func() { flushed <- conn.Flush() }()
	symYield()
	select {
	case err := <-flushed:
		// nothing was queued: returning at once is fine
		symAssert(len(p) == 0 && err == nil, "flush-must-not-return-before-buffer-0")
	default:
		conn.updateBuffer(0)
		symAssert(<-flushed == nil, "flush-returns-after-buffer-0")
	}
	symReach("end")
}

// C14 K2c: writes at and above the 16-bit length limit (concrete content):
// the length field, the payload carried and the returned count agree
func H_c14_write_big() {
	serial := symInt(0, 1) == 1
	n := [...]int{255, 256, 65535, 65536, 70000}[symInt(0, 4)]
	p := make([]byte, n)
	for i := range p {
		p[i] = byte(i*7 + 3)
	}
	dataOut := make(chan []byte, 8)
	conn := &tncConn{dataOut: dataOut, ctrlIn: newBroadcaster(), eofChan: make(chan struct{}), isTCP: !serial}
	type res struct {
		n   int
		err error
	}
	done := make(chan res, 1)
	go func() {
		k, err := conn.Write(p)
		done <- res{k, err}
	}()
	f := <-dataOut
	conn.ctrlIn.Send(ctrlMsg{cmd: cmdBuffer, value: 1})
	r := <-done
	symBudget(200000000)
	symAssert(r.err == nil && r.n > 0 && r.n <= len(p), "write-returns-the-number-of-bytes-accepted")
	if serial {
		symAssert(len(f) >= 6 && f[0] == 'D' && f[1] == ':', "serial-prefix")
		c := refCRC(f[2 : len(f)-2])
		symAssert(f[len(f)-2] == byte(c>>8) && f[len(f)-1] == byte(c), "crc-over-length-and-payload")
		f = f[2 : len(f)-2]
	}
	announced := int(f[0])<<8 | int(f[1])
	symAssert(announced == len(f)-2, "length-field-equals-bytes-that-follow (no 16-bit wrap)")
	symAssert(announced == r.n, "returned-count-equals-bytes-framed")
	symAssert(bytes.Equal(f[2:], p[:r.n]), "frame-carries-the-first-n-bytes-written")
	symReach("end")
}

// reader that returns the stream in two pieces
type splitReader struct {
	b     []byte
	first int
	calls int
}

func (r *splitReader) Read(p []byte) (int, error) {
	if len(r.b) == 0 {
		return 0, io.EOF
	}
	n := len(r.b)
	if r.calls == 0 && r.first < n {
		n = r.first
	}
	r.calls++
	if n > len(p) {
		n = len(p)
	}
	copy(p, r.b[:n])
	r.b = r.b[n:]
	return n, nil
}
