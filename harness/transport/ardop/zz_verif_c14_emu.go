package ardop

import (
	"bytes"
	"io"
	"strings"
	"time"
)

// Reference ARDOP TNC emulator for the CRC-protected serial host interface,
// written from the ARDOP host-interface description: host->TNC frames are
// "C:" text CR crc16 and "D:" len16 payload crc16; TNC->host frames are
// "c:" text CR crc16 and "d:" len16 "ARQ" payload crc16 (big-endian).
type emuARDOP struct {
	toHost  chan []byte
	left    []byte
	wbuf    []byte
	cmds    []string // commands received, in order
	dataIn  []byte   // payload of accepted D frames
	bad     string   // first protocol violation seen
	faults  int      // number of D frames to answer with CRCFAULT first
	dframes [][]byte // raw D frames as received (to compare retransmissions)
	mycall  string
	closed  bool
	pttPlan bool
	early   []byte // ARQ payload delivered right after the connection is up: before the reply to the host's next query
	called  bool
}

// The emulator computes CRCs with the library's crc16Sum: H_c14_crc proves it
// equal to the specification's algorithm, and using the same function keeps
// the comparison of symbolic payload CRCs syntactic (no CRC-equivalence query
// per frame).  What the emulator pins down is which bytes are covered.
func emuFrame(kind byte, body []byte) []byte {
	c := crc16Sum(body)
	out := append([]byte{kind, ':'}, body...)
	return append(out, byte(c>>8), byte(c))
}

func (e *emuARDOP) say(text string) { e.toHost <- emuFrame('c', []byte(text+"\r")) }

func (e *emuARDOP) sayData(payload []byte) {
	body := append([]byte{byte((len(payload) + 3) >> 8), byte(len(payload) + 3)}, "ARQ"...)
	e.toHost <- emuFrame('d', append(body, payload...))
}

func (e *emuARDOP) Read(p []byte) (int, error) {
	for i := 0; i < 4; i++ {
		symYield()
	}
	if len(e.left) == 0 {
		b, ok := <-e.toHost
		if !ok {
			return 0, io.EOF
		}
		e.left = b
	}
	n := copy(p, e.left)
	e.left = e.left[n:]
	return n, nil
}

func (e *emuARDOP) Write(p []byte) (int, error) {
	e.wbuf = append(e.wbuf, p...)
	for len(e.wbuf) >= 2 {
		if e.wbuf[1] != ':' || (e.wbuf[0] != 'C' && e.wbuf[0] != 'D') {
			e.bad = "host frame without C:/D: prefix"
			e.wbuf = nil
			break
		}
		if e.wbuf[0] == 'C' {
			i := bytes.IndexByte(e.wbuf, '\r')
			if i < 0 || len(e.wbuf) < i+3 {
				break
			}
			text := e.wbuf[2 : i+1]
			c := crc16Sum(text)
			if e.wbuf[i+1] != byte(c>>8) || e.wbuf[i+2] != byte(c) {
				e.bad = "command frame with wrong CRC"
			}
			e.command(string(text[:len(text)-1]))
			e.wbuf = e.wbuf[i+3:]
			continue
		}
		if len(e.wbuf) < 4 {
			break
		}
		n := int(e.wbuf[2])<<8 | int(e.wbuf[3])
		if len(e.wbuf) < 4+n+2 {
			break
		}
		body := e.wbuf[2 : 4+n]
		c := crc16Sum(body)
		if e.wbuf[4+n] != byte(c>>8) || e.wbuf[4+n+1] != byte(c) {
			e.bad = "data frame with wrong CRC"
		}
		e.dframes = append(e.dframes, append([]byte(nil), e.wbuf[:4+n+2]...))
		if e.faults > 0 {
			e.faults--
			e.say("CRCFAULT")
		} else {
			e.dataIn = append(e.dataIn, body[2:]...)
			if e.pttPlan {
				e.say("PTT TRUE")
			}
			e.say("BUFFER " + itoa(len(body)-2))
			if e.pttPlan {
				e.say("PTT FALSE")
			}
			e.say("BUFFER 0")
		}
		e.wbuf = e.wbuf[4+n+2:]
	}
	return len(p), nil
}

func itoa(n int) string {
	if n == 0 {
		return "0"
	}
	s := ""
	for n > 0 {
		s = string([]byte{byte('0' + n%10)}) + s
		n /= 10
	}
	return s
}

func (e *emuARDOP) command(text string) {
	e.cmds = append(e.cmds, text)
	parts := strings.SplitN(text, " ", 2)
	arg := ""
	if len(parts) > 1 {
		arg = parts[1]
	}
	switch parts[0] {
	case "INITIALIZE":
		e.say("INITIALIZE")
	case "STATE":
		e.say("STATE DISC")
	case "MYCALL":
		if arg != "" {
			e.mycall = arg
			e.say("MYCALL now " + arg)
		} else {
			if e.called && len(e.early) > 0 {
				// the remote station's first data arrives while the host is still busy with its own queries
				e.sayData(e.early)
				e.early = nil
			}
			e.say("MYCALL " + e.mycall)
		}
	case "ARQCALL":
		e.say("ARQCALL now " + arg)
		e.say("NEWSTATE ISS")
		e.say("PTT TRUE")
		e.say("PTT FALSE")
		e.say("CONNECTED " + strings.SplitN(arg, " ", 2)[0] + " 500")
		e.called = true
	case "DISCONNECT":
		e.say("NEWSTATE DISC")
		e.say("DISCONNECTED")
	default:
		if arg != "" {
			e.say(parts[0] + " now " + arg)
		} else {
			e.say(parts[0])
		}
	}
}

func (e *emuARDOP) Close() error {
	if !e.closed {
		e.closed = true
		close(e.toHost)
	}
	return nil
}

// a PTT controller with latency when keying up (rig control over a serial
// line): requests must still take effect in the order they were issued
type recPTT struct{ events []bool }

func (p *recPTT) SetPTT(on bool) error {
	if on {
		time.Sleep(10 * time.Millisecond)
	}
	p.events = append(p.events, on)
	return nil
}

// C14 K5: open, dial, write (with CRCFAULT retransmission), receive, close —
// the real TNC control loop, broadcaster and connection against the emulator
func H_c14_session() {
	// the junk-message variants run with the plain configuration of the other dimensions
	junk := [...]string{"", "BUFFER x", "BUFFER 0 0 0 0 0", "NEWSTATE FOO", "BUFFER", "FREQUENCY", "PING"}[symInt(0, symParam("JUNK", 7)-1)]
	emu := &emuARDOP{toHost: make(chan []byte, 256)}
	var early []byte
	if junk == "" {
		emu.faults, emu.pttPlan = symInt(0, 2), symInt(0, 1) == 1
		early = symBytes(symInt(0, 2))
	}
	emu.early = early
	tnc, err := Open(emu, "N0CALL", "JP20QE")
	symAssert(err == nil && tnc != nil, "open-ok")
	ptt := &recPTT{}
	tnc.SetPTT(ptt)
	conn, err := tnc.Dial("N1CALL")
	symAssert(err == nil && conn != nil, "dial-ok")
	p := symBytes(symInt(1, symParam("P", 3)))
	n, err := conn.Write(p)
	symAssert(err == nil && n == len(p), "write-returns-bytes-accepted")
	if f, ok := conn.(interface{ Flush() error }); ok {
		symAssert(f.Flush() == nil, "flush-ok")
	}
	// a malformed or unexpected control message from the TNC in the middle of
	// the session must not kill the control loop
	if junk != "" {
		emu.say(junk)
	}
	// inbound ARQ payloads, read with a small buffer
	in1, in2 := symBytes(symInt(1, 3)), symBytes(symInt(0, 2))
	emu.sayData(in1)
	if len(in2) > 0 {
		emu.sayData(in2)
	}
	want := append(append(append([]byte(nil), early...), in1...), in2...)
	bufsz := symInt(1, 4)
	var got []byte
	for len(got) < len(want) {
		b := make([]byte, bufsz)
		k, err := conn.Read(b)
		symAssert(err == nil, "read-ok")
		got = append(got, b[:k]...)
	}
	symAssert(bytes.Equal(got, want), "read-yields-the-concatenated-arq-payloads-in-order")
	symAssert(conn.Close() == nil, "close-ok")
	symAssert(emu.bad == "", "every-host-frame-well-formed (prefix, CR, big-endian length, CRC)")
	symAssert(bytes.Equal(emu.dataIn, p), "tnc-received-the-written-bytes")
	for i := 1; i < len(emu.dframes); i++ {
		symAssert(bytes.Equal(emu.dframes[i], emu.dframes[0]), "crcfault-retransmission-is-identical")
	}
	symAssert(len(emu.dframes) >= 1, "data-frame-sent")
	// PTT requests reach the controller in order (dial: on, off; per accepted data frame: on, off)
	wantPTT := []bool{true, false}
	if emu.pttPlan {
		wantPTT = append(wantPTT, true, false)
	}
	time.Sleep(100 * time.Millisecond) // every request has taken effect by now, however it was dispatched
	okPTT := len(ptt.events) == len(wantPTT)
	for i := range wantPTT {
		if i >= len(ptt.events) || ptt.events[i] != wantPTT[i] {
			okPTT = false
		}
	}
	symAssert(okPTT, "ptt-requests-reach-the-controller-in-order")
	// command sequence: initialisation, call, disconnect on close
	seq := strings.Join(emu.cmds, "|")
	symAssert(strings.HasPrefix(seq, "INITIALIZE|STATE|PROTOCOLMODE ARQ|ARQTIMEOUT "), "initialisation-commands")
	symAssert(strings.Contains(seq, "|MYCALL N0CALL|GRIDSQUARE JP20QE|"), "station-setup-commands")
	symAssert(strings.Contains(seq, "|ARQCALL N1CALL "), "dial-sends-arqcall")
	symAssert(strings.Contains(seq, "|DISCONNECT"), "close-disconnects")
	symReach("end")
}

// C14 K6: accepting an inbound ARQ connection — LISTEN enabled, the TNC
// announces TARGET then CONNECTED; a CONNECTED without a preceding TARGET is
// not an incoming call.  The accepted connection reports both callsigns,
// delivers ARQ payloads in order, frames what is written, disconnects on Close.
func H_c14_accept() {
	emu := &emuARDOP{toHost: make(chan []byte, 256), faults: symInt(0, 1)}
	tnc, err := Open(emu, "N0CALL", "JP20QE")
	symAssert(err == nil && tnc != nil, "open-ok")
	ln, err := tnc.Listen()
	symAssert(err == nil && ln != nil, "listen-ok")
	target := [...]string{"N0CALL", "N0CALL-5"}[symInt(0, 1)] // the call the remote station asked for (own call or an auxiliary one)
	stray := symInt(0, 1) == 1
	go func() {
		if stray {
			emu.say("CONNECTED N9XXX 500") // not preceded by TARGET: not an incoming call
			emu.say("DISCONNECTED")
		}
		emu.say("TARGET " + target)
		emu.say("NEWSTATE IRS")
		emu.say("CONNECTED N1CALL 500")
	}()
	conn, err := ln.Accept()
	symAssert(err == nil && conn != nil, "accept-ok")
	symAssert(strings.Contains(conn.RemoteAddr().String(), "N1CALL"), "accepted-connection-reports-the-remote-callsign")
	symAssert(strings.Contains(conn.LocalAddr().String(), target), "accepted-connection-reports-the-called-callsign")
	in1, in2 := symBytes(symInt(1, 3)), symBytes(symInt(0, 2))
	emu.sayData(in1)
	if len(in2) > 0 {
		emu.sayData(in2)
	}
	want := append(append([]byte(nil), in1...), in2...)
	bufsz := symInt(1, 4)
	var got []byte
	for len(got) < len(want) {
		b := make([]byte, bufsz)
		k, err := conn.Read(b)
		symAssert(err == nil, "read-ok")
		got = append(got, b[:k]...)
	}
	symAssert(bytes.Equal(got, want), "read-yields-the-concatenated-arq-payloads-in-order")
	p := symBytes(symInt(1, symParam("P", 3)))
	n, err := conn.Write(p)
	symAssert(err == nil && n == len(p), "write-returns-bytes-accepted")
	if f, ok := conn.(interface{ Flush() error }); ok {
		symAssert(f.Flush() == nil, "flush-ok")
	}
	symAssert(conn.Close() == nil, "close-ok")
	symAssert(emu.bad == "", "every-host-frame-well-formed (prefix, CR, big-endian length, CRC)")
	symAssert(bytes.Equal(emu.dataIn, p), "tnc-received-the-written-bytes")
	seq := strings.Join(emu.cmds, "|")
	symAssert(strings.Contains(strings.ToUpper(seq), "|LISTEN TRUE"), "listen-enabled")
	symAssert(strings.Contains(seq, "|DISCONNECT"), "close-disconnects")
	symReach("end")
}

// C14 K7: a burst of more ARQ frames than the driver can queue (4096) while
// the application is busy for a second: nothing is dropped, the link stays up,
// Read yields every payload byte in order.
func H_c14_burst() {
	emu := &emuARDOP{toHost: make(chan []byte, 256)}
	tnc, err := Open(emu, "N0CALL", "JP20QE")
	symAssert(err == nil && tnc != nil, "open-ok")
	conn, err := tnc.Dial("N1CALL")
	symAssert(err == nil && conn != nil, "dial-ok")
	n := symParam("FRAMES", 4600)
	x := symByte()
	done := make(chan struct{})
	go func() {
		for i := 0; i < n; i++ {
			emu.sayData([]byte{byte(i) ^ x})
		}
		close(done)
	}()
	// the application is busy elsewhere until the TNC has delivered the whole burst
	select {
	case <-done:
	case <-time.After(20 * time.Second): // the driver's queue is full and it waits for us (up to a minute)
	}
	got := 0
	for got < n {
		b := make([]byte, 512)
		k, err := conn.Read(b)
		symAssert(err == nil, "read-ok")
		for j := 0; j < k; j++ {
			symAssert(b[j] == byte(got+j)^x, "read-yields-the-concatenated-arq-payloads-in-order")
		}
		got += k
	}
	symAssert(conn.Close() == nil, "close-ok")
	symReach("end")
}
