package agwpe

import (
	"bytes"
	"io"
)

// reference AGWPE header layout (AGWPE TCP/IP API): 36 bytes,
// port@0, kind@4, pid@6, from@8(10), to@18(10), datalen@28 LE32, user@32
func refHeader(port byte, kind byte, pid byte, from, to [10]byte, dataLen uint32) []byte {
	b := make([]byte, 36)
	b[0] = port
	b[4] = kind
	b[6] = pid
	copy(b[8:18], from[:])
	copy(b[18:28], to[:])
	b[28], b[29], b[30], b[31] = byte(dataLen), byte(dataLen>>8), byte(dataLen>>16), byte(dataLen>>24)
	return b
}

func symCall10() [10]byte {
	var c [10]byte
	n := symInt(0, 2)
	for i := 0; i < n; i++ {
		c[i] = symByte()
	}
	return c
}

// reader that hands out the stream in chunks: first chunk of c1 bytes, then c2, then the rest
type chunkReader struct {
	b      []byte
	chunks []int
	i      int
}

func (r *chunkReader) Read(p []byte) (int, error) {
	if len(r.b) == 0 {
		return 0, io.EOF
	}
	n := len(r.b)
	if r.i < len(r.chunks) && r.chunks[r.i] < n {
		n = r.chunks[r.i]
	}
	r.i++
	if n > len(p) {
		n = len(p)
	}
	copy(p, r.b[:n])
	r.b = r.b[n:]
	return n, nil
}

// C13 K1 + K2: frame decode under every split of the byte stream into two TCP
// segments (including mid-header and mid-data); header layout.
func H_c13_frame_decode() {
	D := symParam("D", 3)
	n := symInt(0, D)
	data := symBytes(n)
	port, kindB, pid := symByte(), symByte(), symByte()
	from, to := symCall10(), symCall10()
	stream := append(refHeader(port, kindB, pid, from, to, uint32(n)), data...)
	split := symInt(1, len(stream)) // first segment size (len = unsplit)
	var f frame
	_, err := f.ReadFrom(&chunkReader{b: append([]byte(nil), stream...), chunks: []int{split}})
	symAssert(err == nil, "frame-decoded-whatever-the-segmentation")
	symAssert(f.Port == port && byte(f.DataKind) == kindB && f.PID == pid, "header-scalars")
	symAssert(f.From == callsign(from) && f.To == callsign(to), "header-callsigns")
	symAssert(int(f.DataLen) == n && bytes.Equal(f.Data, data), "data")
	// encode side: WriteTo produces the reference layout
	var buf bytes.Buffer
	g := frame{header: header{Port: port, DataKind: kind(kindB), PID: pid, From: callsign(from), To: callsign(to)}, Data: data}
	_, err = g.WriteTo(&buf)
	symAssert(err == nil && bytes.Equal(buf.Bytes(), stream), "encoded-frame-equals-reference-layout")
	symReach("end")
}

// recording TNC connection
type recConn struct {
	bytes.Buffer
}

// C13 K3: every frame the Port/Conn code builds for a registered port passes
// Port.write (port field = registered port) and carries the right callsigns/PID
func H_c13_frame_port() {
	port := symByte()
	which := symInt(0, 7)
	from, to := "N0CALL", "N1CALL-1"
	var f frame
	switch which {
	case 0:
		f = connectFrame(from, to, port, nil)
	case 1:
		f = connectFrame(from, to, port, []string{"DIGI1", "DIGI2"})
	case 2:
		f = disconnectFrame(from, to, port)
	case 3:
		f = connectedDataFrame(port, from, to, []byte("hi"))
	case 4:
		f = outstandingFramesForConnFrame(port, from, to)
	case 5:
		f = registerCallsignFrame(from, port)
	case 6:
		f = unregisterCallsignFrame(from, port)
	case 7:
		f = portCapabilitiesFrame(port)
	}
	symAssert(f.Port == port, "frame-carries-the-registered-port")
	symAssert(f.From.String() == from || which == 7, "from-callsign")
	if which <= 4 {
		symAssert(f.To.String() == to, "to-callsign")
	}
	if which == 3 {
		symAssert(f.PID == 0xf0, "data-frames-carry-pid-f0")
	}
	if which == 1 {
		symAssert(len(f.Data) == 21 && f.Data[0] == 2 && string(f.Data[1:6]) == "DIGI1" && string(f.Data[11:16]) == "DIGI2", "via-list-layout")
	}
	symReach("end")
}

// C13 K6: framesFilter.Want — frames for other ports or stations are not delivered
func H_c13_filter() {
	var fr frame
	fr.Port = symByte() & 3
	fr.DataKind = kind([...]byte{'D', 'C', 'd'}[symInt(0, 2)])
	calls := [...]string{"AAA", "BBB", "CCC"}
	fr.From = callsignFromString(calls[symInt(0, 2)])
	fr.To = callsignFromString(calls[symInt(0, 2)])
	var flt framesFilter
	var p uint8
	hasPort := symInt(0, 1) == 1
	if hasPort {
		p = symByte() & 3
		flt.port = &p
	}
	ci, ti := symInt(-1, 2), symInt(-1, 2)
	if ci >= 0 {
		flt.call = callsignFromString(calls[ci])
	}
	if ti >= 0 {
		flt.to = callsignFromString(calls[ti])
	}
	nk := symInt(0, 2)
	ks := [...]kind{'D', 'C'}
	flt.kinds = ks[:nk]
	want := true
	if hasPort && p != fr.Port {
		want = false
	}
	if ci >= 0 && !(fr.From.String() == calls[ci] || fr.To.String() == calls[ci]) {
		want = false
	}
	if ti >= 0 && fr.To.String() != calls[ti] {
		want = false
	}
	if nk > 0 {
		ok := false
		for _, k := range flt.kinds {
			if k == fr.DataKind {
				ok = true
			}
		}
		want = want && ok
	}
	symAssert(flt.Want(fr) == want, "filter-delivers-exactly-the-matching-frames")
	symReach("end")
}

// C13 K7a: a header announcing any of the 2^32 data lengths, followed by a few
// bytes and EOF: no panic, no allocation out of proportion
func H_c13_frame_malformed() {
	var hdr [36]byte
	for i := range hdr {
		hdr[i] = symByte()
	}
	tail := symBytes(symInt(0, 2))
	symLimitAlloc(1 << 20)
	var f frame
	_, err := f.ReadFrom(bytes.NewReader(append(hdr[:], tail...)))
	if err == nil {
		symAssert(int(f.DataLen) == len(f.Data) && len(f.Data) <= 2, "accepted-frame-is-complete")
	}
	symReach("end")
}

// C13 K4: Conn.Read with every caller buffer size: bytes in order, nothing lost
func H_c13_conn_read() {
	F := symParam("F", 2)
	nf := symInt(1, F)
	ch := make(chan frame, 10)
	var all []byte
	for i := 0; i < nf; i++ {
		d := symBytes(symInt(0, 3))
		all = append(all, d...)
		ch <- frame{Data: d}
	}
	close(ch)
	c := &Conn{dataFrames: ch}
	bufsz := symInt(1, 4)
	var got []byte
	for calls := 0; ; calls++ {
		symAssert(calls <= len(all)+nf+2, "read-loop-terminates")
		p := make([]byte, bufsz)
		n, err := c.Read(p)
		symAssert(n >= 0 && n <= len(p), "read-count-in-range")
		got = append(got, p[:n]...)
		if err != nil {
			symAssert(err == io.EOF, "eof-after-last-frame")
			break
		}
	}
	symAssert(bytes.Equal(got, all), "read-yields-the-concatenated-payloads-in-order")
	symReach("end")
}
