package agwpe

import (
	"bytes"
	"io"
)

// C13 K4: Conn.Read with every caller buffer size: bytes in order, nothing lost
func H_c13_conn_read() {
	F := symParam("F", 2)
	nf := symInt(1, F)
	ch := make(chan frame, 10)
	var all []byte
	for i := 0; i < nf; i++ {
		d := symBytes(symInt(0, 3))
		all = append(all, d...)
		ch <- frame{Data: d}
	}
	close(ch)
	c := &Conn{dataFrames: ch, demux: newDemux()} // a live (idle) demultiplexer, as newConn provides
	bufsz := symInt(1, 4)
	var got []byte
	for calls := 0; ; calls++ {
		symAssert(calls <= len(all)+nf+2, "read-loop-terminates")
		p := make([]byte, bufsz)
		n, err := c.Read(p)
		symAssert(n >= 0 && n <= len(p), "read-count-in-range")
		got = append(got, p[:n]...)
		if err != nil {
			symAssert(err == io.EOF, "eof-after-last-frame")
			break
		}
	}
	symAssert(bytes.Equal(got, all), "read-yields-the-concatenated-payloads-in-order")
	symReach("end")
}
