package agwpe

import (
	"io"
)

// reference AGWPE header layout (AGWPE TCP/IP API): 36 bytes,
// port@0, kind@4, pid@6, from@8(10), to@18(10), datalen@28 LE32, user@32
func refHeader(port byte, kind byte, pid byte, from, to [10]byte, dataLen uint32) []byte {
	b := make([]byte, 36)
	b[0] = port
	b[4] = kind
	b[6] = pid
	copy(b[8:18], from[:])
	copy(b[18:28], to[:])
	b[28], b[29], b[30], b[31] = byte(dataLen), byte(dataLen>>8), byte(dataLen>>16), byte(dataLen>>24)
	return b
}

func symCall10() [10]byte {
	var c [10]byte
	n := symInt(0, 2)
	for i := 0; i < n; i++ {
		c[i] = symByte()
	}
	return c
}

// reader that hands out the stream in chunks: first chunk of c1 bytes, then c2, then the rest
type chunkReader struct {
	b      []byte
	chunks []int
	i      int
}

func (r *chunkReader) Read(p []byte) (int, error) {
	if len(r.b) == 0 {
		return 0, io.EOF
	}
	n := len(r.b)
	if r.i < len(r.chunks) && r.chunks[r.i] < n {
		n = r.chunks[r.i]
	}
	r.i++
	if n > len(p) {
		n = len(p)
	}
	copy(p, r.b[:n])
	r.b = r.b[n:]
	return n, nil
}
