package agwpe

import "bytes"

// C13 K3: every frame the Port/Conn code builds for a registered port passes
// Port.write (port field = registered port) and carries the right callsigns/PID
func H_c13_frame_port() {
	port := symByte()
	which := symInt(0, 7)
	from, to := "N0CALL", "N1CALL-1"
	var f frame
	switch which {
	case 0:
		f = connectFrame(from, to, port, nil)
	case 1:
		f = connectFrame(from, to, port, []string{"DIGI1-10", "DIGI2"})
	case 2:
		f = disconnectFrame(from, to, port)
	case 3:
		f = connectedDataFrame(port, from, to, []byte("hi"))
	case 4:
		f = outstandingFramesForConnFrame(port, from, to)
	case 5:
		f = registerCallsignFrame(from, port)
	case 6:
		f = unregisterCallsignFrame(from, port)
	case 7:
		f = portCapabilitiesFrame(port)
	}
	symAssert(f.Port == port, "frame-carries-the-registered-port")
	symAssert(f.From.String() == from || which == 7, "from-callsign")
	if which <= 4 {
		symAssert(f.To.String() == to, "to-callsign")
	}
	if which == 3 {
		symAssert(f.PID == 0xf0, "data-frames-carry-pid-f0")
	}
	if which == 1 {
		want := append([]byte{2}, "DIGI1-10\x00\x00DIGI2\x00\x00\x00\x00\x00"...)
		symAssert(bytes.Equal(f.Data, want), "via-list-layout (count byte, 10-byte NUL-padded callsigns)")
	}
	symReach("end")
}
