package agwpe

// C13 K6: framesFilter.Want — frames for other ports or stations are not delivered
func H_c13_filter() {
	var fr frame
	fr.Port = symByte() & 3
	fr.DataKind = kind([...]byte{'D', 'C', 'd'}[symInt(0, 2)])
	// callsigns that are proper prefixes of one another (same call with an SSID) and an unrelated one
	calls := [...]string{"AAA", "AAA-1", "AA", "BBB"}
	fr.From = callsignFromString(calls[symInt(0, 3)])
	fr.To = callsignFromString(calls[symInt(0, 3)])
	var flt framesFilter
	var p uint8
	hasPort := symInt(0, 1) == 1
	if hasPort {
		p = symByte() & 3
		flt.port = &p
	}
	ci, ti := symInt(-1, 3), symInt(-1, 3)
	if ci >= 0 {
		flt.call = callsignFromString(calls[ci])
	}
	if ti >= 0 {
		flt.to = callsignFromString(calls[ti])
	}
	nk := symInt(0, 2)
	ks := [...]kind{'D', 'C'}
	flt.kinds = ks[:nk]
	want := true
	if hasPort && p != fr.Port {
		want = false
	}
	if ci >= 0 && !(fr.From.String() == calls[ci] || fr.To.String() == calls[ci]) {
		want = false
	}
	if ti >= 0 && fr.To.String() != calls[ti] {
		want = false
	}
	if nk > 0 {
		ok := false
		for _, k := range flt.kinds {
			if k == fr.DataKind {
				ok = true
			}
		}
		want = want && ok
	}
	symAssert(flt.Want(fr) == want, "filter-delivers-exactly-the-matching-frames")
	symReach("end")
}
