package agwpe

import (
	"bytes"
	"io"
	"strings"
	"time"
)

// C13 K8: accepting an inbound connection.  The TNC announces the incoming
// link with a 'C' frame ("*** CONNECTED To Station <mycall>"); connect frames
// addressed to another callsign must not be accepted.  The accepted
// connection reports the right addresses, delivers the remote's data in order,
// and what the application writes reaches the TNC as D frames from our
// callsign to the remote's, followed by the disconnect exchange on Close.
func H_c13_accept() {
	port := byte(symInt(0, 1))
	emu := &emuTNC{toHost: make(chan []byte, 64), port: port, mycall: "N0CALL", peer: "N1CALL-1", maxFrame: 2}
	tnc := newTNC(emu)
	p, err := tnc.RegisterPort(int(port), "N0CALL")
	symAssert(err == nil && p != nil, "register-ok")
	ln, err := p.Listen()
	symAssert(err == nil && ln != nil, "listen-ok")
	decoy := symInt(0, 1) == 1
	go func() {
		time.Sleep(50 * time.Millisecond) // Accept is waiting by now
		if decoy {
			// a station connecting to somebody else who happens to use the same TNC port
			emu.send('C', "OTHER", "ELSE", []byte("*** CONNECTED To Station ELSE\r"))
		}
		emu.send('C', "N1CALL-1", "N0CALL", []byte("*** CONNECTED To Station N0CALL\r"))
	}()
	conn, err := ln.Accept()
	symAssert(err == nil && conn != nil, "accept-ok")
	symAssert(strings.Contains(conn.RemoteAddr().String(), "N1CALL-1"), "accepted-connection-reports-the-remote-callsign")
	symAssert(strings.Contains(conn.LocalAddr().String(), "N0CALL"), "accepted-connection-reports-the-local-callsign")
	in1 := symBytes(symInt(1, 3))
	emu.send('D', "N1CALL-1", "N0CALL", in1)
	in2 := symBytes(symInt(0, 2))
	if len(in2) > 0 {
		emu.send('D', "N1CALL-1", "N0CALL", in2)
	}
	want := append(append([]byte(nil), in1...), in2...)
	bufsz := symInt(1, 4)
	var got []byte
	for len(got) < len(want) {
		b := make([]byte, bufsz)
		n, err := conn.Read(b)
		symAssert(err == nil, "read-ok")
		got = append(got, b[:n]...)
	}
	symAssert(bytes.Equal(got, want), "read-yields-exactly-this-connections-payloads-in-order")
	out := symBytes(symInt(1, 3))
	n, err := conn.Write(out)
	symAssert(err == nil && n == len(out), "write-accepts-everything")
	wantSeq := "gXDd"
	if symInt(0, 1) == 1 {
		// the remote station ends the link, the application closes afterwards
		emu.send('d', "N1CALL-1", "N0CALL", []byte("*** DISCONNECTED From N1CALL-1\r"))
		time.Sleep(100 * time.Millisecond)
		b := make([]byte, 4)
		k, rerr := conn.Read(b)
		symAssert(k == 0 && rerr == io.EOF, "end-of-stream-after-the-remote-disconnect")
		conn.Close()
		wantSeq = "gXD"
	} else {
		symAssert(conn.Close() == nil, "close-ok")
	}
	symAssert(bytes.Equal(emu.dataIn, out), "tnc-received-the-written-bytes-in-order")
	symAssert(emu.badFrame == "", "all-frames-well-formed (port, callsigns, pid, reserved bytes)")
	seq := ""
	for _, k := range emu.frames {
		if k != "Y" {
			seq += k
		}
	}
	symAssert(seq == wantSeq, "agwpe-exchanges-in-order (g X D [d])")
	// the same station calls again: a new connection is accepted and works
	go func() {
		time.Sleep(50 * time.Millisecond)
		emu.send('C', "N1CALL-1", "N0CALL", []byte("*** CONNECTED To Station N0CALL\r"))
	}()
	conn2, err := ln.Accept()
	symAssert(err == nil && conn2 != nil, "second-call-from-the-same-station-accepted")
	emu.send('D', "N1CALL-1", "N0CALL", in1)
	var got2 []byte
	for len(got2) < len(in1) {
		b := make([]byte, bufsz)
		k, rerr := conn2.Read(b)
		symAssert(rerr == nil, "read-ok")
		got2 = append(got2, b[:k]...)
	}
	symAssert(bytes.Equal(got2, in1), "read-yields-exactly-this-connections-payloads-in-order")
	conn2.Close()
	symReach("end")
}
