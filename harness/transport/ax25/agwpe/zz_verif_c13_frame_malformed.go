package agwpe

import (
	"bytes"
)

// C13 K7a: a header announcing any of the 2^32 data lengths, followed by a few
// bytes and EOF: no panic, no allocation out of proportion
func H_c13_frame_malformed() {
	var hdr [36]byte
	for i := range hdr {
		hdr[i] = symByte()
	}
	tail := symBytes(symInt(0, 2))
	symLimitAlloc(1 << 20)
	var f frame
	_, err := f.ReadFrom(bytes.NewReader(append(hdr[:], tail...)))
	if err == nil {
		symAssert(int(f.DataLen) == len(f.Data) && len(f.Data) <= 2, "accepted-frame-is-complete")
	}
	symReach("end")
}
