package agwpe

import (
	"bytes"
	"context"
	"io"
	"net"
	"time"
)

// Reference TNC emulator speaking the AGWPE TCP/IP API, written from the API
// description: it parses every frame the host writes (validating the 36-byte
// layout) and answers g, X, C/v, Y, d as a TNC does.
type emuTNC struct {
	toHost   chan []byte
	left     []byte
	wbuf     []byte
	port     byte
	mycall   string
	peer     string
	frames   []string // kinds received, in order
	dataIn   []byte   // payload of D frames written by the host
	pending  int      // outstanding frames reported by 'Y'
	badFrame string
	closed   bool
	maxFrame byte
	viaSeen  []byte
	yMode    int // 'Y' replies: 0 well-formed and draining, 1 malformed (two data bytes), 2 count stuck at one
}

type emuAddr struct{}

func (emuAddr) Network() string { return "emu" }
func (emuAddr) String() string  { return "emu" }

func (e *emuTNC) send(kind byte, from, to string, data []byte) {
	var f, t [10]byte
	copy(f[:], from)
	copy(t[:], to)
	b := append(refHeader(e.port, kind, 0, f, t, uint32(len(data))), data...)
	e.toHost <- b
}

func (e *emuTNC) sendPort(port byte, kind byte, from, to string, data []byte) {
	var f, t [10]byte
	copy(f[:], from)
	copy(t[:], to)
	e.toHost <- append(refHeader(port, kind, 0xf0, f, t, uint32(len(data))), data...)
}

func (e *emuTNC) Read(p []byte) (int, error) {
	// give the demultiplexer goroutines a chance to drain before the next frame
	for i := 0; i < 6; i++ {
		symYield()
	}
	if len(e.left) == 0 {
		b, ok := <-e.toHost
		if !ok {
			return 0, io.EOF
		}
		e.left = b
	}
	n := copy(p, e.left)
	e.left = e.left[n:]
	return n, nil
}

func (e *emuTNC) Write(p []byte) (int, error) {
	e.wbuf = append(e.wbuf, p...)
	for len(e.wbuf) >= 36 {
		dl := int(uint32(e.wbuf[28]) | uint32(e.wbuf[29])<<8 | uint32(e.wbuf[30])<<16 | uint32(e.wbuf[31])<<24)
		if len(e.wbuf) < 36+dl {
			break
		}
		h, data := e.wbuf[:36], e.wbuf[36:36+dl]
		e.handle(h, append([]byte(nil), data...))
		e.wbuf = e.wbuf[36+dl:]
	}
	return len(p), nil
}

func cstr(b []byte) string {
	if i := bytes.IndexByte(b, 0); i >= 0 {
		b = b[:i]
	}
	return string(b)
}

func (e *emuTNC) handle(h, data []byte) {
	kind := h[4]
	from, to := cstr(h[8:18]), cstr(h[18:28])
	e.frames = append(e.frames, string([]byte{kind}))
	if h[1] != 0 || h[2] != 0 || h[3] != 0 || h[5] != 0 || h[7] != 0 {
		e.badFrame = "reserved header bytes not zero"
	}
	if kind != 'R' && h[0] != e.port {
		e.badFrame = "frame for port " + string([]byte{'0' + h[0]}) + " on a host registered for another port"
	}
	switch kind {
	case 'g':
		caps := make([]byte, 12)
		caps[6] = e.maxFrame
		e.send('g', "", "", caps)
	case 'X':
		if from != e.mycall {
			e.badFrame = "register with wrong callsign"
		}
		e.send('X', from, "", []byte{1})
	case 'C', 'v':
		if from != e.mycall || to != e.peer {
			e.badFrame = "connect with wrong callsigns"
		}
		if kind == 'v' {
			e.viaSeen = data
		}
		e.send('C', to, from, []byte("*** CONNECTED With "+to+"\r"))
	case 'Y':
		if from != e.mycall || to != e.peer {
			e.badFrame = "Y query with wrong callsigns"
		}
		n := e.pending
		if e.pending > 0 && e.yMode != 2 {
			e.pending--
		}
		if e.yMode == 2 && n == 0 {
			n = 1
		}
		if e.yMode == 1 {
			e.send('Y', from, to, []byte{byte(n), 0})
		} else {
			e.send('Y', from, to, []byte{byte(n), 0, 0, 0})
		}
	case 'D':
		if from != e.mycall || to != e.peer || h[6] != 0xf0 {
			e.badFrame = "data frame with wrong callsigns or PID"
		}
		e.dataIn = append(e.dataIn, data...)
		e.pending = 1
	case 'd':
		if from != e.mycall || to != e.peer {
			e.badFrame = "disconnect with wrong callsigns"
		}
		e.send('d', to, from, []byte("*** DISCONNECTED From "+to+"\r"))
	case 'x':
	}
}

func (e *emuTNC) Close() error {
	if !e.closed {
		e.closed = true
		close(e.toHost)
	}
	return nil
}
func (e *emuTNC) LocalAddr() net.Addr                { return emuAddr{} }
func (e *emuTNC) RemoteAddr() net.Addr               { return emuAddr{} }
func (e *emuTNC) SetDeadline(t time.Time) error      { return nil }
func (e *emuTNC) SetReadDeadline(t time.Time) error  { return nil }
func (e *emuTNC) SetWriteDeadline(t time.Time) error { return nil }

// C13 K5: register, dial, write, receive, flush, close against the emulator
func H_c13_session() {
	port := byte(symInt(0, 2))
	emu := &emuTNC{toHost: make(chan []byte, 64), port: port, mycall: "N0CALL", peer: "N1CALL-1", maxFrame: byte(symInt(1, 2))}
	tnc := newTNC(emu)
	p, err := tnc.RegisterPort(int(port), "N0CALL")
	symAssert(err == nil && p != nil, "register-ok")
	var via []string
	switch symInt(0, 2) {
	case 1:
		via = []string{"DIGI"}
	case 2:
		via = []string{"LA1B-10", "LD5SK"}
	}
	conn, err := p.DialContext(context.Background(), "N1CALL-1", via...)
	symAssert(err == nil && conn != nil, "dial-ok")
	// host -> TNC
	nw := symInt(1, 2)
	var written []byte
	for i := 0; i < nw; i++ {
		chunk := symBytes(symInt(1, 3))
		n, err := conn.Write(chunk)
		symAssert(err == nil && n == len(chunk), "write-accepts-everything")
		written = append(written, chunk...)
	}
	// TNC -> host: data frames for this connection, one for another station in between
	in1 := symBytes(symInt(1, 3))
	emu.send('D', "N1CALL-1", "N0CALL", in1)
	emu.send('D', "OTHER", "ELSE", []byte("not for us"))
	emu.send('d', "OTHER", "N0CALL", []byte("*** DISCONNECTED From OTHER\r")) // another station's link goes down: ours must survive
	emu.sendPort(port+1, 'D', "N1CALL-1", "N0CALL", []byte("same station, other port"))
	in2 := symBytes(symInt(0, 2))
	if len(in2) > 0 {
		emu.send('D', "N1CALL-1", "N0CALL", in2)
	}
	want := append(append([]byte(nil), in1...), in2...)
	// the remote station may hang up right after its last frame: what it sent
	// before is still delivered, then end of stream
	hangup := symInt(0, 1) == 1
	if hangup {
		emu.send('d', "N1CALL-1", "N0CALL", []byte("*** DISCONNECTED From N1CALL-1\r"))
		time.Sleep(100 * time.Millisecond) // the demultiplexer sees the disconnect before the application reads
	}
	bufsz := symInt(1, 4)
	var got []byte
	for len(got) < len(want) {
		b := make([]byte, bufsz)
		n, err := conn.Read(b)
		symAssert(err == nil, "read-ok")
		got = append(got, b[:n]...)
	}
	symAssert(bytes.Equal(got, want), "read-yields-exactly-this-connections-payloads-in-order")
	if hangup {
		b := make([]byte, bufsz)
		n, err := conn.Read(b)
		symAssert(n == 0 && err == io.EOF, "end-of-stream-after-the-remote-disconnect")
		conn.Close()
		symAssert(bytes.Equal(emu.dataIn, written), "tnc-received-the-written-bytes-in-order")
		symAssert(emu.badFrame == "", "all-frames-well-formed (port, callsigns, pid, reserved bytes)")
		symReach("end")
		return
	}
	err = conn.Close()
	symAssert(err == nil, "close-ok")
	symAssert(bytes.Equal(emu.dataIn, written), "tnc-received-the-written-bytes-in-order")
	symAssert(emu.badFrame == "", "all-frames-well-formed (port, callsigns, pid, reserved bytes)")
	// exchanges: g X (C|v) ... Y polling ... d
	seq := ""
	for _, k := range emu.frames {
		if k != "Y" {
			seq += k
		}
	}
	wantSeq := "gX"
	if len(via) > 0 {
		wantSeq += "v"
	} else {
		wantSeq += "C"
	}
	for i := 0; i < nw; i++ {
		wantSeq += "D"
	}
	wantSeq += "d"
	symAssert(seq == wantSeq, "agwpe-exchanges-in-order (g X C/v D.. d)")
	switch len(via) {
	case 1:
		symAssert(bytes.Equal(emu.viaSeen, append([]byte{1}, "DIGI\x00\x00\x00\x00\x00\x00"...)), "via-list")
	case 2:
		symAssert(bytes.Equal(emu.viaSeen, append([]byte{2}, "LA1B-10\x00\x00\x00LD5SK\x00\x00\x00\x00\x00"...)), "via-list")
	}
	symReach("end")
}

// C13 K9: Close while the TNC answers the outstanding-frames query badly — a
// malformed reply, or a count that never drains (Flush gives up after its
// timeout): the disconnect exchange is performed all the same.
func H_c13_close_bad_y() {
	emu := &emuTNC{toHost: make(chan []byte, 64), port: 0, mycall: "N0CALL", peer: "N1CALL-1", maxFrame: 2}
	tnc := newTNC(emu)
	p, err := tnc.RegisterPort(0, "N0CALL")
	symAssert(err == nil && p != nil, "register-ok")
	conn, err := p.DialContext(context.Background(), "N1CALL-1")
	symAssert(err == nil && conn != nil, "dial-ok")
	chunk := symBytes(symInt(1, 2))
	n, err := conn.Write(chunk)
	symAssert(err == nil && n == len(chunk), "write-accepts-everything")
	emu.yMode = symInt(1, 2)
	if !symEngine() && emu.yMode == 2 {
		emu.yMode = 1 // a stuck count costs the one-minute flush timeout in real time: engine only (virtual clock)
	}
	conn.Close()
	seq := ""
	for _, k := range emu.frames {
		if k != "Y" {
			seq += k
		}
	}
	symAssert(seq == "gXCDd", "agwpe-exchanges-in-order (g X C D d)")
	symAssert(emu.badFrame == "", "all-frames-well-formed (port, callsigns, pid, reserved bytes)")
	symReach("end")
}
