package agwpe

import (
	"bytes"
)

// C13 K1 + K2: frame decode under every split of the byte stream into two TCP
// segments (including mid-header and mid-data); header layout.
func H_c13_frame_decode() {
	D := symParam("D", 3)
	n := symInt(0, D)
	data := symBytes(n)
	port, kindB, pid := symByte(), symByte(), symByte()
	from, to := symCall10(), symCall10()
	stream := append(refHeader(port, kindB, pid, from, to, uint32(n)), data...)
	split := symInt(1, len(stream)) // first segment size (len = unsplit)
	var f frame
	_, err := f.ReadFrom(&chunkReader{b: append([]byte(nil), stream...), chunks: []int{split}})
	symAssert(err == nil, "frame-decoded-whatever-the-segmentation")
	symAssert(f.Port == port && byte(f.DataKind) == kindB && f.PID == pid, "header-scalars")
	symAssert(f.From == callsign(from) && f.To == callsign(to), "header-callsigns")
	symAssert(int(f.DataLen) == n && bytes.Equal(f.Data, data), "data")
	// encode side: WriteTo produces the reference layout
	var buf bytes.Buffer
	g := frame{header: header{Port: port, DataKind: kind(kindB), PID: pid, From: callsign(from), To: callsign(to)}, Data: data}
	_, err = g.WriteTo(&buf)
	symAssert(err == nil && bytes.Equal(buf.Bytes(), stream), "encoded-frame-equals-reference-layout")
	symReach("end")
}

// recording TNC connection
type recConn struct {
	bytes.Buffer
}
