package transport

import (
	"context"
	"net"
	"strings"
)

// C19 K1: any string at all yields a URL or an error, never a panic
func H_c19_robust() {
	L := symParam("L", 3)
	pre := [...]string{"", "ax25://", "ardop:///", "x://u:p@h:1/"}[symInt(0, 3)]
	raw := pre + symString(symInt(0, L))
	u, err := ParseURL(raw)
	symAssert((u != nil) || (err != nil), "url-or-error")
	if err == nil {
		symAssert(len(u.Target) >= 3, "accepted-target-has-three-characters")
	}
	symReach("end")
}

func symCallChar() byte {
	b := symByte()
	symAssume((b >= 'a' && b <= 'z') || (b >= 'A' && b <= 'Z') || (b >= '0' && b <= '9') || b == '-')
	return b
}

func symCall(n int) string {
	b := make([]byte, n)
	for i := range b {
		b[i] = symCallChar()
	}
	return string(b)
}

// C19 K2: component fidelity
func H_c19_components() {
	// every scheme a dialer of this repository accepts, plus one an application registers itself
	scheme := [...]string{"ax25", "ardop", "agwpe+ax25", "telnet", "myscheme", "serial-tnc", "ax25+agwpe", "ax25+linux", "ax25+serial-tnc"}[symInt(0, symParam("SCHEMES", 5)-1)]
	hasUser := symInt(0, 1) == 1
	hasPass := hasUser && symInt(0, 1) == 1
	hasHost := symInt(0, 1) == 1
	hasPort := hasHost && symInt(0, 1) == 1
	ndigi := symInt(0, symParam("DIGIS", 2))
	tlen := symInt(symParam("TMIN", 2), symParam("TLEN", 4))
	hostParam := symInt(0, 1) == 1
	extraParam := symInt(0, 1) == 1

	user, pass, host := "la5nta", "secret", "host1"
	raw := scheme + "://"
	if hasUser {
		raw += user
		if hasPass {
			raw += ":" + pass
		}
		raw += "@"
	}
	wantHost := ""
	if hasHost {
		raw += host
		wantHost = host
		if hasPort {
			raw += ":8000"
			wantHost += ":8000"
		}
	}
	var digis []string
	for i := 0; i < ndigi; i++ {
		d := "d" + refItoaT(i) + symCall(1) // one symbolic character per digipeater
		digis = append(digis, d)
		raw += "/" + d
	}
	// target: concrete characters with one symbolic character at a symbolic position
	tb := []byte("n0cal")[:tlen]
	if tlen > 0 {
		tb[symInt(0, tlen-1)] = symCallChar()
	}
	target := string(tb)
	raw += "/" + target
	if hostParam || extraParam {
		raw += "?"
		if hostParam {
			raw += "host=q1"
			wantHost = "q1"
		}
		if extraParam {
			if hostParam {
				raw += "&"
			}
			raw += "freq=7000"
		}
	}
	u, err := ParseURL(raw)
	if tlen < 3 {
		symAssert(err == ErrInvalidTarget, "short-target-refused")
		symReach("short-target")
		symReach("end")
		return
	}
	if ndigi > 0 && (scheme == "ardop" || scheme == "telnet") {
		symAssert(err == ErrDigisUnsupported, "digis-refused-for-schemes-without-digipeaters")
		symReach("digis-refused")
		symReach("end")
		return
	}
	symAssert(err == nil && u != nil, "well-formed-url-accepted")
	symAssert(u.Scheme == scheme, "scheme")
	symAssert(u.Host == wantHost, "host (host= parameter overrides)")
	symAssert(u.Target == strings.ToUpper(target), "target-upper-cased")
	symAssert(len(u.Digis) == ndigi, "digi-count")
	for i := range digis {
		symAssert(u.Digis[i] == strings.ToUpper(digis[i]), "digis-upper-cased-in-order")
	}
	if hasUser {
		symAssert(u.User != nil && u.User.Username() == user, "user")
		p, ok := u.User.Password()
		symAssert(ok == hasPass && (!hasPass || p == pass), "password")
	} else {
		symAssert(u.User == nil, "no-user")
	}
	if extraParam {
		symAssert(u.Params.Get("freq") == "7000", "other-parameters-preserved")
	}
	symReach("end")
}

type recDialer struct {
	id    int
	calls *[]int
}

func (d recDialer) DialURL(u *URL) (net.Conn, error) {
	*d.calls = append(*d.calls, d.id)
	return nil, nil
}

type recCtxDialer struct {
	id    int
	calls *[]int
}

func (d recCtxDialer) DialURL(u *URL) (net.Conn, error) { return d.DialURLContext(context.Background(), u) }
func (d recCtxDialer) DialURLContext(ctx context.Context, u *URL) (net.Conn, error) {
	*d.calls = append(*d.calls, d.id)
	return nil, nil
}

// C19 K3: dispatch after any sequence of up to OPS registry operations
func H_c19_dispatch() {
	OPS := symParam("OPS", 3)
	schemes := [...]string{"a", "b"}
	var calls []int
	model := map[string]int{}
	n := symInt(0, OPS)
	for i := 1; i <= n; i++ {
		sch := schemes[symInt(0, 1)]
		switch symInt(0, 2) {
		case 0:
			RegisterDialer(sch, recDialer{id: i, calls: &calls})
			model[sch] = i
		case 1:
			RegisterContextDialer(sch, recCtxDialer{id: i, calls: &calls})
			model[sch] = i
		case 2:
			UnregisterDialer(sch)
			delete(model, sch)
		}
	}
	sch := schemes[symInt(0, 1)]
	_, err := DialURL(&URL{Scheme: sch, Target: "N0CALL"})
	if want, ok := model[sch]; ok {
		symAssert(err == nil && len(calls) == 1 && calls[0] == want, "dispatch-to-the-dialer-registered-last-for-the-scheme")
		symReach("dispatched")
	} else {
		symAssert(err == ErrMissingDialer && len(calls) == 0, "no-dialer-reported")
		symReach("missing")
	}
	symReach("end")
}

func refItoaT(i int) string { return string([]byte{byte('0' + i)}) }
