#!/usr/bin/env python3
"""Copy verified seeded changes from the scratch worktrees into /verif/seeded/<id>/ and
write meta.json + README.md.  Results of tools/seedcheck.sh are read from the batch logs."""
import json, os, re, shutil, glob
DESC = {
 ("wt_C15",1):("C15","transport/telnet","deadline cleared when the callsign prompt is answered","server that answers the callsign but never sends the password prompt"),
 ("wt_C15",2):("C16","fbb","%08d + last-8 replaced by strconv.Itoa + 'last 8 if longer' (zero padding lost)","masked digest below 10^7 (~0.9% of logins)"),
 ("wt_C15",3):("C16","fbb","auxiliary address response computed with the primary password","challenge + auxiliary address whose password differs from the primary's"),
 ("wt_C15",4):("C19","transport","dead sort.Reverse made live: digipeaters sorted descending","two or more digipeaters not already in descending order"),
 ("wt_C15",5):("C19","transport","host= parameter only used when the URL has no host part","URL with both a host part and host="),
 ("wt_C15",6):("C20","catalog","carry of 60 minutes done before the rounding instead of after","coordinate < 0.00005 minute below a whole degree"),
 ("wt_C09",1):("C09","fbb","CRLF after an attachment only written if its data does not already end in CR LF","two attachments, a non-last one ending in CR LF"),
 ("wt_C09",2):("C09","fbb","attachment name trimmed on parse","name with a leading blank / blank inside the encoded word"),
 ("wt_C09",3):("C18","fbb","wrap only when the line is longer than 1000 instead of 998","line (or remainder) of exactly 999 or 1000 bytes"),
 ("wt_C09",4):("C18","fbb","TrimSuffix(line, CR) replaced by Cut at the first CR","lone CR inside a line"),
 ("wt_C13",1):("C13","transport/ax25/agwpe","port filter field *uint8 -> uint8 with 0 = any port","callsign registered on port 0 and a frame from the same station on another port"),
 ("wt_C13",2):("C13","transport/ax25/agwpe","header decoded from a single Read of 36 bytes","TCP segment boundary inside a frame header"),
 ("wt_C13",3):("C14","transport/ardop","D: prefix prepended inside the retry loop","serial mode + CRCFAULT (retransmission starts D:D:)"),
 ("wt_C13",4):("C14","transport/ardop","write cap 65535 -> 1<<16","single Write of >= 65536 bytes (length field wraps to 0)"),
 ("wt_C10",1):("C10","mailbox","routing filter looks at To only (Cc ignored)","P2P query and a message with a Cc recipient"),
 ("wt_C10",2):("C10","mailbox","deferred map only created if nil in Prepare","SetDeferred, then a second Prepare on the same handler instance"),
 ("wt_C10",3):("C11","mailbox","os.Remove(final) between temp write and rename","existing target (SetUnread) and a crash between unlink and rename"),
 ("wt_C10",4):("C12","mailbox","containment check by string prefix without separator","MID reaching a sibling directory whose name starts with the mailbox name"),
 ("wt_C01",1):("C01","fbb","sent bookkeeping walks the untruncated proposal slice","more than five messages queued one way"),
 ("wt_C01",2):("C01","fbb","data block fetched with a single Read","stream segmentation that splits a data block"),
 ("wt_C03",1):("C03","fbb","SID feature check indexes features[len-1] of an empty list","SID with nothing after the last dash, e.g. [WL2K-4.0-]"),
 ("wt_C03",2):("C03","fbb","offset digits located with IndexFunc, -1 not handled","FS !100 / FS A5 (offset last on the line)"),
 ("wt_C03",3):("C03","fbb","buf.Grow(declared uncompressed size) before decompression","proposal line announcing -1 / 2^28 / 10^17 as size"),
 ("wt_C04",1):("C04","fbb","Close verdict discarded (defer r.Close())","checksum-compensating pair in the payload"),
 ("wt_C04",2):("C04","fbb","EOT checksum reduced with & 0xf instead of % 256","checksum byte differing from the correct one by a multiple of 16"),
 ("wt_C04",3):("C05","fbb","F> checksum formatted without zero padding","block checksum below 0x10"),
 ("wt_C04",4):("C05","fbb","length byte 0 read as 255 instead of 256","peer sends a full 256-byte data block"),
 ("wt_C02",1):("C02","fbb","storage error of a non-final message swallowed (continue instead of return)","ProcessInbound failing for a message that is not the last accepted one of the block"),
 ("wt_C02",2):("C02","fbb","block fill loop ignores io.EOF: receiver spins","link cut strictly inside a data block"),
 ("wt_C06",1):("C06","lzhuf","EOF case drops the buf.Len()==0 term","stream ending in a match and a Read boundary inside that match"),
 ("wt_C06",2):("C07","lzhuf","window mirror copy _F-1 -> _F-2","code starting at ring index 2047 after >= 2107 bytes with a 59-byte agreement"),
 ("wt_C06",3):("C08","lzhuf","Close size check != weakened to >","declared size smaller than what the stream decodes to, or negative"),
 ("wt_C06",4):("C06","lzhuf","byte-wise pre-fill replaced by copy + InsertNode loop","first 60 bytes arriving in more than one Write, input starting with spaces"),
 ("wt2_D",1):("C09","fbb","body and its terminating CRLF written only when the body is non-empty","empty body together with a non-empty attachment"),
 ("wt2_D",2):("C09","fbb","winlink.org domain test by HasSuffix on the whole address","SMTP address whose domain merely ends in winlink.org (bob@mywinlink.org)"),
 ("wt2_D",3):("C16","fbb","auxiliary address gets addr|resp whenever the callback returns no error (empty password included)","callback returning (\"\", nil) for an auxiliary address"),
 ("wt2_D",4):("C16","fbb","password TrimSpace'd before hashing","password with leading/trailing blank, TAB or LF"),
 ("wt2_D",5):("C18","fbb","remainder after a wrap is TrimLeft'ed of blanks","line longer than 998 bytes with a blank exactly at the wrap offset"),
 ("wt2_E",1):("C10","mailbox","private headers stripped before the CMS branch tests X-P2POnly","P2P-only message and a CMS query"),
 ("wt2_E",2):("C10","mailbox","already-in-inbox check moved before the send-only check","send-only handler and a MID already in the inbox"),
 ("wt2_E",3):("C11","mailbox","temporary file named <MID>.tmp.b2f (carries the message extension)","crash between creating the temporary file and the rename"),
 ("wt2_E",4):("C12","mailbox","MID whitelist regexp without the $ anchor","MID starting with a letter and containing a slash later (A/../../../x)"),
 ("wt2_F",1):("C13","transport/ax25/agwpe","disconnect subscription moved to the port-level demux","established connection and a 'd' frame for a different station on the same port"),
 ("wt2_F",2):("C13","transport/ax25/agwpe","digipeater field reuses one callsign buffer without clearing","two digipeaters, the later one shorter than the earlier one"),
 ("wt2_F",3):("C14","transport/ardop","retry loop falls through to 'return n, nil' after the third CRCFAULT","three consecutive CRCFAULT replies to one Write"),
 ("wt2_F",4):("C14","transport/ardop","PTT forwarded only when the requested state changes","PTT sequence with two equal consecutive values or starting with FALSE"),
 ("wt2_F",5):("C15","transport/telnet","a buffered leading LF after the password line is discarded","first post-login payload byte is LF and arrives with the password line"),
 ("wt2_F",6):("C19","transport","digipeaters upper-cased through the loop copy only","digipeater containing a lower-case letter"),
 ("wt2_B",1):("C03","fbb","File header split with IndexAny, -1 not handled","valid transfer whose message has a File header without a blank"),
 ("wt2_B",2):("C03","fbb","SOH header read by its declared length, fields[1] used before the count check","header length byte 0 or <= len(title)"),
 ("wt2_B",3):("C04","fbb","offset field Atoi error dropped (TrimSpace + ignore)","offset byte substituted by a non-digit, non-NUL byte"),
 ("wt2_B",4):("C05","fbb","SOH length byte computed from the un-encoded title","outbound message whose subject needs word-encoding"),
 ("wt2_B",5):("C05","fbb","sort.Stable(byPrecedence) -> sort.Sort","at least 13 queued messages with two or more precedence classes"),
 ("wt2_A",1):("C01","fbb","any '*** ...' line during the handshake is an error (except MTD Stats)","slave side and a master MOTD line starting with '*'"),
 ("wt2_A",2):("C01","fbb","SOH length byte = len(un-encoded title)","accepted message with a non-ASCII subject"),
 ("wt2_A",3):("C02","fbb","FQ written before a ProcessInbound error is returned","storage error on the receiving side"),
 ("wt2_A",4):("C02","fbb","EOF on the acknowledgement Peek treated as remote quit when remoteNoMsgs is set","peer said FF before the block; link cut after the answer line"),
 ("wt2_C",1):("C06","lzhuf","literal/match test matchLength <= _Threshold -> < _Threshold","last encode step has exactly 2 bytes left and the stale byte after the end extends a match to >= 3 (e.g. {0,0,0})"),
 ("wt2_C",2):("C06","lzhuf","overflow buffer []byte drained with buf = buf[:0] instead of buf[n:]","read buffer shorter than the pending tail of a match (1-byte reads)"),
 ("wt2_C",3):("C08","lzhuf","end-of-stream tested before the bit-reader error; Close no longer looks at the bit reader","stream without CRC (or recomputed CRC) cut inside its last symbol"),
 ("wt2_C",4):("C08","lzhuf","'unused' upper halves of the position tables removed (dCode/dLen [0xD0])","non-canonical stream: match symbol followed by 8 bits >= 0xD0"),
 ("wt3_G",1):("C04","fbb","the two SetSent loops merged and moved before the acknowledgement Peek","transfer accepted in FS but refused by the receiver after the data (damaged in transit)"),
 ("wt3_G",2):("C04","fbb","STX block length clamped to the remaining announced size instead of rejecting the frame","length byte of the last STX block substituted by a larger value"),
 ("wt3_G",3):("C05","fbb","data loop rewritten with buffer.Next: trailing empty block 02 00 when the size is a multiple of the block size","compressed size (minus offset) divisible by 125"),
 ("wt3_G",4):("C05","fbb","twosComplement helper returns 0x100 for a sum that is 0 mod 256","proposal block whose byte sum is 0 mod 256"),
 ("wt3_G",5):("C18","fbb","charset translator cached per charset: conversion results share a scratch buffer","a second StringToBody while the first result is still in use"),
 ("wt3_H",1):("C06","lzhuf","encodeEnd (flush of the last partial byte) moved inside 'if w.crc16'","Writer without CRC header and an encoded bit length that is not a multiple of 8"),
 ("wt3_H",2):("C08","lzhuf","Close size check simplified to header.size != state.pos (pending overflow ignored)","caller stops reading inside the last match and calls Close"),
 ("wt3_H",3):("C08","lzhuf","fast path copies a whole match when it fits the caller's buffer, skipping the declared-size clip","declared size inside a match and a read buffer with room for the whole match"),
 ("wt3_H",4):("C08","lzhuf","Reader.crc16 field removed: Close tests header.crc != 0 && header.crc != Sum()","B2 stream whose CRC field is 00 00 while the real CRC is non-zero"),
 ("wt3_I",1):("C10","mailbox","SetSent returns early when sent/<MID> already exists","a stale copy of the MID in sent/ (message queued again after it was sent)"),
 ("wt3_I",2):("C10","mailbox","GetInboundAnswer looks in all four folders","proposed MID present in out/, sent/ or archive/ but not in in/"),
 ("wt3_I",3):("C11","mailbox","Prepare rolls leftover *.tmp files forward by renaming them to the final name","crash strictly inside the temp-file write, then a restart through Prepare"),
 ("wt3_I",4):("C11","mailbox","GetInboundAnswer globs in/<MID>.* (matches the leftover .tmp)","ProcessInbound crash between temp creation and rename, then a proposal for the MID"),
 ("wt3_I",5):("C12","mailbox","store helper writes to the message's X-FilePath header if set","received message carrying an X-FilePath header"),
 ("wt3_K",1):("C01","fbb","STX loop refactored to full blocks then remainder (>=): empty STX 0 block","accepted message whose compressed size is n*125"),
 ("wt3_K",2):("C01","fbb","payload size field checked against the proposed size before the format switch (hits gzip payloads)","GZIP_EXPERIMENT=1 on both sides and any accepted message"),
 ("wt3_K",3):("C02","fbb","one-minute deadline before the error echo replaced by clearing the deadline","storage error on a non-last message over a link with back pressure"),
 ("wt3_K",4):("C02","mailbox","ProcessInbound failure path: shadowed err, bare return reports nil","real file-system failure while storing an inbound message"),
 ("wt3_K",5):("C03","fbb","F> checksum parsed from line[3:5] with the guard still len(line) < 3","prompt of 3 or 4 characters (F> 3, F>3B)"),
 ("wt3_K",6):("C03","fbb","offset guard compares with the uncompressed size","FS !n with compressedSize < n <= size"),
 ("wt3_L",1):("C13","transport/ax25/agwpe","callsign.equal compares only len(filter call) bytes","frame from/to a station whose callsign has the connection's callsign as a proper prefix (SSID)"),
 ("wt3_L",2):("C13","transport/ax25/agwpe","fail-fast isClosed guard at the top of Conn.Read, before the pending data","remote 'd' frame processed while data is still unread"),
 ("wt3_L",3):("C14","transport/ardop","tnc.connected set after Dial built the conn instead of on CONNECTED","ARQ data frame arriving before the TNC answered the MYCALL query of Dial"),
 ("wt3_L",4):("C15","transport/telnet","deferred reset clears only the read deadline","Write on the connection after the dial deadline has passed"),
 ("wt3_L",5):("C19","transport","digi parsing by strings.Split; length check on the whole path","short target together with a digi path or trailing slash"),
 ("wt3_L",6):("C20","catalog","decToMinDec in integer arithmetic with int() truncation","minutes whose fifth decimal is 5 or more"),
 ("wt4_M",1):("C01","fbb","inbound proposal MID upper-cased in parseB2Proposal","inbound MID containing a lower-case letter"),
 ("wt4_M",2):("C02","fbb","nAccepted bounds the receive loop but is decremented for skipped proposals too","answer line with - or = in front of a + (FS -+)"),
 ("wt4_M",3):("C03","fbb","cleanString: if str[0]==0 became for str[0]==0","line consisting only of NUL bytes"),
 ("wt4_M",4):("C04","fbb","TrafficStats.Sent appended right after writeCompressed instead of after the acknowledgement","transfer accepted in FS but refused after the data; the failing sender's statistics"),
 ("wt4_M",5):("C05","fbb","parseFW cuts the whole ;FW: line at the first pipe instead of per entry","forwarder list where a hashed address is followed by another address"),
 ("wt4_M",6):("C03","fbb","block confirmation skips ';' comment lines with the Peek error dropped","comment line after the block and the input ending right there"),
 ("wt4_N",1):("C09","fbb","ASCII-only fast path in the header word encoder","pure-ASCII subject or attachment name with an inner CR or LF"),
 ("wt4_N",2):("C09","fbb","Write re-formats the Date header from the Local() time without UTC()","process local zone other than UTC"),
 ("wt4_N",3):("C16","fbb","callback error for an auxiliary address: address dropped from the ;FW: line","callback returning an error for an auxiliary address"),
 ("wt4_N",4):("C18","fbb","toLatin1 fast path with r < unicode.MaxLatin1","U+00FF in the body"),
 ("wt4_N",5):("C19","transport","deny-list of schemes without digipeaters replaced by an incomplete allow-list","digipeater path with scheme agwpe+ax25 or an application-registered scheme"),
 ("wt4_N",6):("C20","catalog","hasPosition sanity check with open intervals","latitude exactly +-90 or longitude exactly +-180"),
 ("wt4_O",1):("C13","transport/ax25/agwpe","Conn.Close returns early on any flush error other than EOF","Close while the TNC answers the Y query badly"),
 ("wt4_O",2):("C13","transport/ax25/agwpe","per-port table of active inbound links not cleaned when the remote ends the session","second inbound connect from the same callsign after a remote disconnect"),
 ("wt4_O",3):("C14","transport/ardop","parseCtrlMsg leaves the value unset on an Atoi error","non-numeric BUFFER argument from the TNC"),
 ("wt4_O",4):("C14","transport/ardop","go ptt.SetPTT(...): requests no longer serialised","PTT controller with latency when keying up"),
 ("wt4_O",5):("C15","transport/telnet","sendLine(conn, format, a...) called with the user string as format","a % in the callsign or password"),
 ("wt4_O",6):("C15","transport/telnet","Dialer timeout only applied when the context has no deadline","context deadline later than the dial timeout and a silent server"),
 ("wt4_P",1):("C06","lzhuf","bit reader refills a chunk buffer with one Read and drops bytes returned together with an error","source returning its last bytes together with io.EOF"),
 ("wt4_P",2):("C06","lzhuf","decompression-bomb guard at 32 output bytes per input byte","at least ~7.5 KB of a repeated byte or short period"),
 ("wt4_P",3):("C08","lzhuf","decoder state recycled through a sync.Pool without re-zeroing the ring tail","an earlier Reader closed in the same process, then a match pointing more than 1988 bytes back"),
 ("wt4_P",4):("C10","mailbox","ProcessInbound skips a MID already in in/","storing a MID that is already in the inbox (read, or with different bytes)"),
 ("wt4_P",5):("C11","mailbox","writeFileAtomic writes data <= 4096 bytes directly to the final name","crash inside the write of a small message"),
 ("wt4_P",6):("C12","mailbox","shared store() helper loses the validMID check of AddOut/ProcessInbound","received message whose Mid header contains path separators"),
 ("wt5_S",1):("C18","fbb","StringToBody translates the normalised text in 32 KiB chunks","body over 32 KiB with a two-byte character across a 32768 multiple"),
 ("wt5_S",2):("C09","fbb","Header.Write folds lines longer than 78 bytes; the parser unfolds with a single blank","long subject or attachment name with two adjacent blanks at the fold point"),
 ("wt5_S",3):("C10","mailbox","stripPrivateHeaders deletes every X-* header","outbound message carrying another X- header"),
 ("wt5_S",4):("C16","fbb","nil-callback guard moved below the ;FW: loop that already calls the callback","challenge, no callback registered and at least one auxiliary address"),
 ("wt5_S",5):("C05","fbb","offset guards merged into offset <= 0","peer answering FS !0 / A0 (zero-offset accept)"),
 ("wt5_S",6):("C01","fbb","parseB2Proposal refuses compressedSize > size","incompressible message (compressed form larger than the message)"),
 ("wt5_S",7):("C03","fbb","FS answer built in a fixed [MaxBlockSize]byte array","remote sends six or more proposals in one block"),
 ("wt5_T",1):("C20","catalog","coordinate first rounded to micro-degrees","coordinate with more than 6 decimals whose micro-degree rounding crosses a 0.0001 minute boundary"),
 ("wt5_T",2):("C19","transport","user info copied with url.UserPassword(user, pass)","URL with a user but no password"),
 ("wt5_T",3):("C15","transport/telnet","deadline extended by the timeout for every non-prompt line (inactivity timeout)","server that never prompts but keeps sending lines"),
 ("wt5_T",4):("C13","transport/ax25/agwpe","TNC.run reuses one frame variable whose Data buffer is recycled","another frame arriving while a data frame is still unread"),
 ("wt5_T",5):("C14","transport/ardop","ARQ data handed over with a non-blocking select that drops the link","more than 4096 ARQ frames delivered before the application reads"),
 ("wt5_T",6):("C06","lzhuf","match tail served straight from the window without wrapping at the ring end","read buffer ending inside a match whose remainder crosses ring index 2047"),
 ("wt5_T",7):("C04","fbb","SOH header-length check relaxed from != to >","header length byte changed in transit to a smaller value"),
}
results = {}
for f in ['/tmp/seedfirst.txt'] + sorted(glob.glob('/tmp/seedbatch*.txt')) + sorted(glob.glob('/tmp/seedfinal*.txt')):
    for l in open(f):
        m = re.match(r'SEED (wt\d?_\w+)/(\d+): clean-demo=(\d+) build=(\d+) suite=(\d+) demo-with-patch=(\d+) checks:(.*)', l)
        if m:
            results[(m.group(1), int(m.group(2)))] = dict(clean_demo=int(m.group(3)), build=int(m.group(4)), suite=int(m.group(5)), demo_with_patch=int(m.group(6)), checks=m.group(7).strip(), log=os.path.basename(f))
rows = []
for (wt, i), (prop, pkg, change, needs) in sorted(DESC.items(), key=lambda kv: (kv[1][0], kv[0])):
    sd = f'/tmp/{wt}/SEED/{i}'
    sid = f'{prop}-{wt[3:] if wt.startswith("wt_") else "R"+wt[2]+wt[4:]}-{i}'
    out = f'/verif/seeded/{sid}'
    r = results.get((wt, i))
    if not os.path.isdir(sd) and not os.path.isdir(out):
        continue
    if os.path.isdir(sd):
        os.makedirs(out, exist_ok=True)
        for fn in ('patch.diff', 'demo_test.go', 'notes.md'):
            if os.path.exists(f'{sd}/{fn}'):
                shutil.copy(f'{sd}/{fn}', f'{out}/{fn}')
    viol = ''
    vf = glob.glob(f'/tmp/seed_viol_*_{wt}_{i}.txt')
    caught = []
    for v in vf:
        for l in open(v):
            m = re.search(r'^\s+(H_\w+) kind=(\w+) label="([^"]*)"', l)
            if m:
                caught.append(f'{m.group(1)}: {m.group(2)} "{m.group(3)}"')
    meta = dict(id=sid, breaks_property=prop, demo_package_dir=pkg, change=change, needs_to_manifest=needs,
                verified=r and dict(existing_suite_passes_with_patch=(r['build']==0 and r['suite']==0), demo_fails_with_patch=(r['demo_with_patch']!=0), demo_passes_without_patch=(r['clean_demo']==0),
                                    how="tools/seedcheck.sh in the scratch worktree: demo on clean tree, git apply patch.diff, go build ./..., go test -vet=off -count=1 ./..., demo again"),
                checks_run=r and r['checks'], caught_by=sorted(set(caught)))
    old = {}
    if os.path.exists(f'{out}/meta.json'):
        old = json.load(open(f'{out}/meta.json'))
    if not r:
        meta['verified'] = old.get('verified'); meta['checks_run'] = old.get('checks_run'); meta['caught_by'] = old.get('caught_by', [])
    if 'strengthened' in old:
        meta['strengthened'] = old['strengthened']
    json.dump(meta, open(f'{out}/meta.json', 'w'), indent=1)
    rows.append(meta)
with open('/verif/seeded/README.md', 'w') as f:
    f.write('# Seeded changes\n\nEach directory holds `patch.diff`, `demo_test.go` (copy into the package directory named in meta.json), `notes.md` (the author\'s notes) and `meta.json`.\nProduced by independent sub-agents that saw only the property text; verified with `tools/seedcheck.sh`.\n\n| id | change | needs | caught by (quick tier) |\n|---|---|---|---|\n')
    for m in rows:
        cb = '; '.join(m['caught_by']) if m['caught_by'] else ('**not caught**' if m.get('checks_run') else 'n/a')
        f.write(f"| {m['id']} | {m['change']} | {m['needs_to_manifest']} | {cb} |\n")
    if os.path.exists('/verif/seeded/BENIGN-results.txt'):
        f.write('\n## Behaviour-preserving changes (false-alarm probe)\n\n`BENIGN-R5R-<i>/` hold ten refactorings by an independent sub-agent after which every property still holds (`patch.diff`, `notes.md`). Quick checks of the properties whose code each touches, run against the patched tree (`bin/gosym check <id> --repo <worktree>`): every one exits 0.\n\n```\n')
        f.write(open('/verif/seeded/BENIGN-results.txt').read())
        f.write('```\n')
print(len(rows), 'seeds collected')
