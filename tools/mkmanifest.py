#!/usr/bin/env python3
"""Regenerate /verif/MANIFEST.json from harness/index.json and tools/claims.json."""
import json, os
V = '/verif'
props = [json.loads(l) for l in open(f'{V}/properties.jsonl')]
idx = json.load(open(f'{V}/harness/index.json'))['properties']
claims = json.load(open(f'{V}/tools/claims.json'))
ENV = 'GOTOOLCHAIN=go1.24.0 GOFLAGS=-mod=mod GOPROXY=off'
m = {
 "version": 1,
 "setup_cmd": f"cd /verif/engine && {ENV} go build -o ../bin/gosym . && ../bin/gosym selftest",
 "hooks": {
  "guard": "none (overlay only)",
  "enable": "harness files are injected as virtual files of the package under test through go/packages Overlay (engine) and go test -overlay (native replay); no file in /repo is added or changed for the machinery",
  "baseline_off_cmd": "cd /repo && go test -vet=off -count=1 ./...",
  "source_commits": [],
  "add_only": True
 },
 "engines": [{
  "name": "gosym", "path": "/verif/engine",
  "serves_properties": sorted(claims['claimed'].keys()),
  "kind_free_text": "bounded symbolic executor for go/ssa (built from /repo's working tree on every run) emitting SMT-LIB2 to z3 5.1.0; each assertion and implicit Go run-time check is a solver query per path; counterexamples are replayed natively against the real build"
 }],
 "checks": [],
 "not_applicable": [],
 "notes": "See DESIGN.md. known_findings.json lists recorded defects and fix: commits. Exit 2 from a check means inconclusive (never on the unchanged tree for registered bounds)."
}
for p in props:
    pid = p['id']
    if pid in claims['claimed'] and pid in idx:
        c = claims['claimed'][pid]
        m['checks'].append({
            "property_id": pid,
            "quick_cmd": f"bin/gosym check {pid} --tier quick",
            "thorough_cmd": f"bin/gosym check {pid} --tier thorough",
            "evidence_file": f"/verif/evidence/{pid}.json",
            "replay_cmd_template": f"bin/gosym replay {{path}}",
            "engine": "gosym",
            "level_claimed": {"category": "model_checking", "text": c['text'], "design_ref": c.get('design_ref', 'DESIGN.md section 5')},
            "level_note": c['note'],
            "technique": c.get('technique', "solver-based bounded symbolic execution of the real Go code (go/ssa -> SMT-LIB2, z3 5.1.0 decides every assertion and run-time check per path; native replay of counterexamples)")
        })
    else:
        reason = claims['not_applicable'].get(pid, "check not built yet (engine under construction); see DESIGN.md section 5")
        m['not_applicable'].append({"property_id": pid, "reason": reason})
json.dump(m, open(f'{V}/MANIFEST.json', 'w'), indent=1)
print("claimed:", [c['property_id'] for c in m['checks']])
