#!/bin/bash
# tools/seedcheck.sh <worktree> <seed-index> <pkgdir-for-demo> <property> [<property>...]
# 1. verifies the seeded change in its scratch worktree (existing suite passes with the
#    patch, the demonstration fails with it and passes without it),
# 2. runs the quick checks of the given properties against the patched worktree
#    (bin/gosym check --repo <worktree>; /repo itself is not touched),
# prints one summary line.
wt=$1; i=$2; pkg=$3; shift 3
sd=$wt/SEED/$i
export GOFLAGS=-mod=mod GOPROXY=off
cd $wt || exit 2
git checkout -q -- . ; git clean -fdq -e SEED >/dev/null
mv SEED /tmp/SEED_$$ 2>/dev/null   # keep the demo sources out of ./...
sd=/tmp/SEED_$$/$i
demo=$pkg/zz_seed_demo_test.go
cp $sd/demo_test.go $demo
go test -vet=off -count=1 ./$pkg/ -run . > /tmp/seed_clean_$$.log 2>&1; clean_rc=$?
rm -f $demo
git apply $sd/patch.diff || { echo "SEED $wt/$i: patch does not apply"; mv /tmp/SEED_$$ SEED; exit 2; }
go build ./... > /tmp/seed_build_$$.log 2>&1; build_rc=$?
go test -vet=off -count=1 ./... > /tmp/seed_suite_$$.log 2>&1; suite_rc=$?
cp $sd/demo_test.go $demo
go test -vet=off -count=1 ./$pkg/ -run . > /tmp/seed_demo_$$.log 2>&1; demo_rc=$?
rm -f $demo
res=""
for p in "$@"; do
  (cd /verif && timeout 3000 bin/gosym check $p --tier ${TIER:-quick} --repo $wt > /tmp/seed_check_${p}_$$.log 2>&1); rc=$?
  v=$(grep -c '^VIOLATION' /tmp/seed_check_${p}_$$.log)
  res="$res $p:exit=$rc,viol=$v"
  grep '^VIOLATION' -A1 /tmp/seed_check_${p}_$$.log | grep -v '^--' | cut -c1-260 > /tmp/seed_viol_${p}_$(basename $wt)_$i.txt
done
git checkout -q -- . ; git clean -fdq -e SEED >/dev/null
mv /tmp/SEED_$$ SEED
echo "SEED $(basename $wt)/$i: clean-demo=$clean_rc build=$build_rc suite=$suite_rc demo-with-patch=$demo_rc checks:$res"
