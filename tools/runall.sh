#!/bin/bash
# run every claimed check (quick by default) and summarise
tier=${1:-quick}
cd /verif
for p in $(python3 -c "import json;print(' '.join(c['property_id'] for c in json.load(open('MANIFEST.json'))['checks']))"); do
  s=$(date +%s)
  timeout 7200 bin/gosym check $p --tier $tier > /tmp/runall_$p.log 2>&1
  rc=$?
  e=$(date +%s)
  echo "$p exit=$rc $((e-s))s $(grep -c '^KNOWN-FINDING' /tmp/runall_$p.log) known $(grep -c '^VIOLATION' /tmp/runall_$p.log) viol $(grep -c '^INCONCLUSIVE\|^ENGINE-MISMATCH' /tmp/runall_$p.log) inconcl"
done
