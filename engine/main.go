package main

// gosym: bounded symbolic execution of Go SSA with SMT-decided obligations.
//
//   gosym run   -pkg fbb -harness H_x [-param k=v ...] -out result.json
//   gosym check <property-id> [--tier quick|thorough]        (driver, see check.go)
//   gosym selftest

import (
	"encoding/json"
	"flag"
	"fmt"
	"go/types"
	"os"
	"path/filepath"
	"regexp"
	"runtime/debug"
	"runtime/pprof"
	"sort"
	"strings"
	"sync"
	"sync/atomic"
	"time"

	"golang.org/x/tools/go/packages"
	"golang.org/x/tools/go/ssa"
	"golang.org/x/tools/go/ssa/ssautil"
)

type RunConfig struct {
	RepoDir         string
	VerifDir        string
	Pkg             string // package dir relative to the module root ("fbb", "transport/ardop", "zz_verif_x")
	Harness         string
	Params          map[string]int
	Env             map[string]string
	Workers         int
	Budget          int64
	AllocLimit      int
	MaxPaths        int
	MaxConcretize   int
	TimeoutMs       int
	FeasTimeoutMs   int
	OneShotMs       int
	FeasOneShotMs   int
	FallbackSolvers []SolverKind
	PathTimeoutS    int
	Solver          SolverKind
	Verbose         bool
	SMTLog          string
	Samples         int
	CrossCheck      bool
	WallLimitS      int
	KnownKeys       []string // violation keys (regular expressions) of recorded known findings: never a reason to stop early
	Merge           bool
	DumpUnknown     string
}

type ViolationRec struct {
	Violation
	Harness string     `json:"harness"`
	Count   int        `json:"count"`
	Vector  []VecEntry `json:"vector"`
	HasVec  bool       `json:"has_vector"`
	Key     string     `json:"key"`
}

type Sample struct {
	Vector   []VecEntry `json:"vector"`
	Reach    []string   `json:"reach,omitempty"`
	Observed []string   `json:"observed,omitempty"`
	Status   string     `json:"status"`
}

type RunResult struct {
	Pkg          string            `json:"pkg"`
	Harness      string            `json:"harness"`
	Params       map[string]int    `json:"params"`
	Paths        int               `json:"paths"`
	ByStatus     map[string]int    `json:"by_status"`
	Forks        int               `json:"forks"`
	Steps        int64             `json:"steps"`
	Asserts      int               `json:"assert_sites_checked"`
	Violations   []*ViolationRec   `json:"violations"`
	Inconclusive []string          `json:"inconclusive"`
	Reach        map[string]int    `json:"reach"`
	Functions    map[string]int    `json:"functions_encoded"`
	Intrinsics   map[string]int    `json:"intrinsics"`
	Stubs        []string          `json:"stubs"`
	Queries      int               `json:"queries"`
	Sat          int               `json:"sat"`
	Unsat        int               `json:"unsat"`
	Unknown      int               `json:"unknown"`
	SolverS      float64           `json:"solver_s"`
	SlowestS     float64           `json:"slowest_query_s"`
	WallS        float64           `json:"wall_s"`
	LoadS        float64           `json:"load_s"`
	Samples      []Sample          `json:"samples"`
	Solver       string            `json:"solver"`
	Regions      int               `json:"array_regions"`
	Complete     bool              `json:"complete"`
	BusyS        float64           `json:"worker_busy_s"`
	Notes        []string          `json:"notes,omitempty"`
	Extra        map[string]string `json:"extra,omitempty"`
}

func initAllowed(modPath string) func(string) bool {
	std := map[string]bool{
		"errors": false, "io": true, "bufio": true, "bytes": true, "strings": true, "strconv": true,
		"unicode": true, "unicode/utf8": true, "unicode/utf16": true, "sort": true, "slices": true, "path": true, "mime": true,
		"net/textproto": true, "net/url": true, "encoding/binary": true, "encoding/base64": true,
		"encoding/base32": true, "encoding/hex": true, "time": true, "math": true, "math/bits": true, "io/fs": true,
		"context": true, "sync": true, "sync/atomic": true, "internal/bytealg": true, "io/ioutil": true,
		"internal/oserror": true, "internal/stringslite": true, "internal/itoa": true, "maps": true, "cmp": true,
		"container/list": true, "hash": true, "hash/crc32": true, "compress/flate": true, "compress/gzip": true, "path/filepath": true, "regexp/syntax": true, "regexp": true,
		"internal/byteorder": true, "iter": true,
	}
	return func(p string) bool {
		if strings.HasPrefix(p, modPath) {
			return true
		}
		return std[p]
	}
}

// "//verif:stub callee = func" applies to every harness of the package,
// "//verif:stub(H_a,H_b) callee = func" only to the named harnesses.
var stubRe = regexp.MustCompile(`(?m)^//verif:stub(?:\(([\w,]+)\))?\s+(\S+)\s*=\s*(\S+)\s*$`)

func loadProgram(cfg *RunConfig) (*Program, *ssa.Function, []string, error) {
	overlay := map[string][]byte{}
	hdir := filepath.Join(cfg.VerifDir, "harness", cfg.Pkg)
	files, _ := filepath.Glob(filepath.Join(hdir, "*.go"))
	var stubDecls [][2]string
	pkgName := ""
	for _, f := range files {
		if strings.HasSuffix(f, "_test.go") {
			continue
		}
		b, err := os.ReadFile(f)
		if err != nil {
			return nil, nil, nil, err
		}
		overlay[filepath.Join(cfg.RepoDir, cfg.Pkg, filepath.Base(f))] = b
		for _, m := range stubRe.FindAllStringSubmatch(string(b), -1) {
			if m[1] != "" {
				applies := false
				for _, hn := range strings.Split(m[1], ",") {
					if hn == cfg.Harness {
						applies = true
					}
				}
				if !applies {
					continue
				}
			}
			stubDecls = append(stubDecls, [2]string{m[2], m[3]})
		}
		if pkgName == "" {
			if m := regexp.MustCompile(`(?m)^package\s+(\w+)`).FindStringSubmatch(string(b)); m != nil {
				pkgName = m[1]
			}
		}
	}
	if pkgName == "" {
		return nil, nil, nil, fmt.Errorf("no harness files in %s", hdir)
	}
	symSrc, err := os.ReadFile(filepath.Join(cfg.VerifDir, "harness", "zz_verif_sym.go.tmpl"))
	if err != nil {
		return nil, nil, nil, err
	}
	overlay[filepath.Join(cfg.RepoDir, cfg.Pkg, "zz_verif_sym.go")] = []byte(strings.Replace(string(symSrc), "package PKG", "package "+pkgName, 1))
	models, err := os.ReadFile(filepath.Join(cfg.VerifDir, "engine", "models", "models.go"))
	if err != nil {
		return nil, nil, nil, err
	}
	overlay[filepath.Join(cfg.RepoDir, "zz_verifmodels", "models.go")] = models

	env := append(os.Environ(), "GOTOOLCHAIN=go1.24.0", "GOFLAGS=-mod=mod", "GOPROXY=off")
	pcfg := &packages.Config{
		Mode:    packages.LoadAllSyntax | packages.NeedModule,
		Dir:     cfg.RepoDir,
		Overlay: overlay,
		Env:     env,
	}
	// A change under test may alter unexported signatures that *other* harness
	// files of the package use.  Files that no longer type-check are dropped
	// (never the file that defines the requested harness, nor the shared
	// util/refpeer/sym files) and the load is retried.
	targetFile := ""
	for _, f := range files {
		b, _ := os.ReadFile(f)
		if regexp.MustCompile(`(?m)^func ` + regexp.QuoteMeta(cfg.Harness) + `\(`).Match(b) {
			targetFile = filepath.Base(f)
		}
	}
	var pkgs []*packages.Package
	var dropped []string
	for attempt := 0; ; attempt++ {
		pkgs, err = packages.Load(pcfg, "./"+cfg.Pkg, "./zz_verifmodels")
		if err != nil {
			return nil, nil, nil, err
		}
		var errs []string
		bad := map[string]bool{}
		packages.Visit(pkgs, nil, func(p *packages.Package) {
			for _, e := range p.Errors {
				errs = append(errs, e.Error())
				if i := strings.Index(e.Pos, ":"); i > 0 {
					bad[e.Pos[:i]] = true
				}
			}
		})
		if len(errs) == 0 {
			break
		}
		progress := false
		for f := range bad {
			base := filepath.Base(f)
			if !strings.HasPrefix(base, "zz_verif_") || base == targetFile || strings.Contains(base, "_util") || strings.Contains(base, "_refpeer") || base == "zz_verif_sym.go" || strings.Contains(base, "_reflzh") {
				continue
			}
			if _, ok := overlay[f]; ok {
				delete(overlay, f)
				dropped = append(dropped, base)
				progress = true
			}
		}
		if !progress || attempt > 6 {
			return nil, nil, nil, fmt.Errorf("package errors:\n%s", strings.Join(errs, "\n"))
		}
	}
	if len(dropped) > 0 {
		fmt.Fprintf(os.Stderr, "note: harness files dropped because they no longer type-check against the tree: %v\n", dropped)
	}
	sprog, spkgs := ssautil.AllPackages(pkgs, ssa.InstantiateGenerics)
	sprog.Build()
	modPath := ""
	for _, p := range pkgs {
		if p.Module != nil {
			modPath = p.Module.Path
		}
	}
	prog := &Program{ssa: sprog, fset: sprog.Fset, pkgs: map[string]*ssa.Package{}, infos: map[*ssa.Function]*fnInfo{}, merges: map[*ssa.BasicBlock]*mergeInfo{}, modPath: modPath, stubs: map[string]*ssa.Function{}}
	prog.initOK = initAllowed(modPath)
	for _, p := range sprog.AllPackages() {
		prog.pkgs[p.Pkg.Path()] = p
	}
	var hpkg *ssa.Package
	for i, p := range pkgs {
		if strings.HasSuffix(p.PkgPath, "/"+cfg.Pkg) || p.PkgPath == modPath+"/"+cfg.Pkg {
			hpkg = spkgs[i]
		}
	}
	if hpkg == nil {
		return nil, nil, nil, fmt.Errorf("harness package %s not found", cfg.Pkg)
	}
	h := hpkg.Func(cfg.Harness)
	if h == nil {
		return nil, nil, nil, fmt.Errorf("harness %s not found in %s", cfg.Harness, hpkg.Pkg.Path())
	}
	var stubNames []string
	for _, d := range stubDecls {
		f := hpkg.Func(d[1])
		if f == nil {
			return nil, nil, nil, fmt.Errorf("stub function %s not found", d[1])
		}
		prog.stubs[d[0]] = f
		stubNames = append(stubNames, d[0]+" = "+d[1])
	}
	sort.Strings(stubNames)
	return prog, h, stubNames, nil
}

func newExec(prog *Program, cfg *RunConfig, push func(*WorkItem)) *Exec {
	e := &Exec{
		prog: prog, tc: NewTermCtx(), cfg: cfg,
		layouts: map[types.Type]*layout{}, consts: map[*ssa.Const]Value{}, globals: map[*ssa.Global]*Obj{},
		inited: map[*ssa.Package]bool{}, initDone: map[*ssa.Package]bool{}, initRunning: map[*ssa.Package]bool{}, funcs: map[*ssa.Function]*int{}, intrUsed: map[string]int{}, portfolioWins: map[string]int{},
		pushWork: push,
	}
	e.solver = NewSolver(cfg.Solver, cfg.TimeoutMs)
	return e
}

func runHarness(cfg *RunConfig) (*RunResult, error) {
	t0 := time.Now()
	prog, h, stubs, err := loadProgram(cfg)
	if err != nil {
		return nil, err
	}
	loadS := time.Since(t0).Seconds()
	res := &RunResult{Pkg: cfg.Pkg, Harness: cfg.Harness, Params: cfg.Params, ByStatus: map[string]int{}, Reach: map[string]int{},
		Functions: map[string]int{}, Intrinsics: map[string]int{}, Stubs: stubs, LoadS: loadS, Solver: cfg.Solver.String()}

	var mu sync.Mutex
	cond := sync.NewCond(&mu)
	var queue []*WorkItem
	active := 0
	stop := false
	push := func(w *WorkItem) {
		mu.Lock()
		queue = append(queue, w)
		mu.Unlock()
		cond.Signal()
	}
	queue = append(queue, &WorkItem{})
	vio := map[string]*ViolationRec{}
	incon := map[string]bool{}
	deadline := time.Now().Add(time.Duration(cfg.WallLimitS) * time.Second)

	var stopFlag int32
	go func() {
		for {
			time.Sleep(500 * time.Millisecond)
			mu.Lock()
			if cfg.Verbose || os.Getenv("GOSYM_PROGRESS") != "" {
				fmt.Fprintf(os.Stderr, "[%.1fs] paths=%d queue=%d active=%d\n", time.Since(t0).Seconds(), res.Paths, len(queue), active)
			}
			if stop {
				mu.Unlock()
				atomic.StoreInt32(&stopFlag, 1)
				return
			}
			if cfg.WallLimitS > 0 && time.Now().After(deadline) {
				incon[fmt.Sprintf("wall-clock limit %d s reached", cfg.WallLimitS)] = true
				stop = true
				mu.Unlock()
				atomic.StoreInt32(&stopFlag, 1)
				cond.Broadcast()
				return
			}
			mu.Unlock()
		}
	}()
	var wg sync.WaitGroup
	execs := make([]*Exec, cfg.Workers)
	for w := 0; w < cfg.Workers; w++ {
		wg.Add(1)
		go func(w int) {
			defer wg.Done()
			var e *Exec
			for {
				mu.Lock()
				for len(queue) == 0 && active > 0 && !stop {
					cond.Wait()
				}
				if stop || (len(queue) == 0 && active == 0) {
					mu.Unlock()
					cond.Broadcast()
					return
				}
				item := queue[len(queue)-1]
				queue = queue[:len(queue)-1]
				active++
				mu.Unlock()
				if e == nil {
					e = newExec(prog, cfg, push)
					e.stopFlag = &stopFlag
					if cfg.SMTLog != "" && w == 0 {
						f, _ := os.Create(cfg.SMTLog)
						e.solver.log = f
					}
					execs[w] = e
				}
				tp := time.Now()
				pr := e.RunPath(item, h)
				e.busy += time.Since(tp)
				mu.Lock()
				active--
				res.Paths++
				res.ByStatus[pr.Status]++
				for _, r := range pr.Reach {
					res.Reach[r]++
				}
				switch pr.Status {
				case "ok", "infeasible", "stopped":
				case "violation", "blocked":
					v := pr.Violation
					if v == nil {
						v = &Violation{Kind: pr.Status, Msg: pr.Msg}
					}
					key := v.Kind + "|" + v.Label + "|" + classify(v.Msg)
					if v.Kind == "bound" {
						key = v.Kind + "|" + v.Label + "|"
					}
					if r, ok := vio[key]; ok {
						r.Count++
						if !r.HasVec && pr.HasModel {
							r.Vector, r.HasVec = pr.Vector, true
						}
						// thousands of paths failing the same assertion: the verdict will
						// not change, stop exploring (the run is marked incomplete)
						if r.Count >= 5000 && r.HasVec && (len(queue) > 0 || active > 0) && !matchesAny(cfg.KnownKeys, key) {
							incon[fmt.Sprintf("exploration stopped after %d paths violating the same assertion", r.Count)] = true
							stop = true
						}
					} else {
						vio[key] = &ViolationRec{Violation: *v, Harness: cfg.Harness, Count: 1, Vector: pr.Vector, HasVec: pr.HasModel, Key: key}
					}
				default:
					incon[pr.Status+": "+pr.Msg] = true
				}
				if pr.Status == "ok" && len(res.Samples) < cfg.Samples && pr.HasModel {
					res.Samples = append(res.Samples, Sample{Vector: pr.Vector, Reach: pr.Reach, Observed: pr.Observed, Status: pr.Status})
				}
				if cfg.Verbose {
					fmt.Fprintf(os.Stderr, "[w%d] path %d: %s %s (steps %d, dec %d)\n", w, res.Paths, pr.Status, pr.Msg, pr.Steps, pr.Decisions)
				}
				if cfg.MaxPaths > 0 && res.Paths >= cfg.MaxPaths && (len(queue) > 0 || active > 0) {
					incon[fmt.Sprintf("path limit %d reached", cfg.MaxPaths)] = true
					stop = true
				}
				if cfg.WallLimitS > 0 && time.Now().After(deadline) && (len(queue) > 0 || active > 0) {
					incon[fmt.Sprintf("wall-clock limit %d s reached", cfg.WallLimitS)] = true
					stop = true
				}
				mu.Unlock()
				cond.Broadcast()
			}
		}(w)
	}
	wg.Wait()
	mu.Lock()
	res.Complete = !stop
	stop = true
	mu.Unlock()
	for _, e := range execs {
		if e == nil {
			continue
		}
		for k, v := range e.funcs {
			res.Functions[k.String()] += *v
		}
		for k, v := range e.intrUsed {
			res.Intrinsics[k] += v
		}
		for k, v := range e.portfolioWins {
			res.Intrinsics["portfolio fall-back decided by "+k] += v
		}
		st := e.solver.Stats
		res.Queries += st.Queries
		res.Sat += st.Sat
		res.Unsat += st.Unsat
		res.Unknown += st.Unknown
		res.SolverS += st.Time.Seconds()
		if st.Slowest.Seconds() > res.SlowestS {
			res.SlowestS = st.Slowest.Seconds()
		}
		res.Forks += e.stats.Forks
		res.Steps += e.stats.Steps
		res.Regions += e.stats.Regions
		res.Asserts += e.nAsserts
		res.BusyS += e.busy.Seconds()
		e.solver.Close()
	}
	keys := make([]string, 0, len(vio))
	for k := range vio {
		keys = append(keys, k)
	}
	sort.Strings(keys)
	for _, k := range keys {
		res.Violations = append(res.Violations, vio[k])
	}
	for k := range incon {
		res.Inconclusive = append(res.Inconclusive, k)
	}
	sort.Strings(res.Inconclusive)
	res.WallS = time.Since(t0).Seconds()
	return res, nil
}

var numRe = regexp.MustCompile(`-?\d+`)

// classify strips numbers from a message so that instances of one defect share a key
func classify(msg string) string {
	s := numRe.ReplaceAllString(msg, "N")
	if len(s) > 160 {
		s = s[:160]
	}
	return s
}

func main() {
	debug.SetGCPercent(200)
	debug.SetMemoryLimit(20 << 30)
	if len(os.Args) < 2 {
		fmt.Fprintln(os.Stderr, "usage: gosym run|check|selftest ...")
		os.Exit(2)
	}
	switch os.Args[1] {
	case "run":
		cmdRun(os.Args[2:])
	case "check":
		cmdCheck(os.Args[2:])
	case "selftest":
		cmdSelftest()
	case "replay":
		cmdReplay(os.Args[2:])
	default:
		fmt.Fprintln(os.Stderr, "unknown command")
		os.Exit(2)
	}
}

type paramFlags map[string]int

func (p paramFlags) String() string { return "" }
func (p paramFlags) Set(s string) error {
	kv := strings.SplitN(s, "=", 2)
	if len(kv) != 2 {
		return fmt.Errorf("param needs k=v")
	}
	var v int
	if _, err := fmt.Sscanf(kv[1], "%d", &v); err != nil {
		return err
	}
	p[kv[0]] = v
	return nil
}

func defaultConfig() *RunConfig {
	return &RunConfig{
		RepoDir: "/repo", VerifDir: "/verif", Params: map[string]int{}, Env: map[string]string{},
		Workers: 16, Budget: 5_000_000, MaxPaths: 2_000_000, TimeoutMs: 10_000, FeasTimeoutMs: 2_000, OneShotMs: 60_000, FeasOneShotMs: 20_000,
		FallbackSolvers: []SolverKind{Z3New, Z3, CVC5}, PathTimeoutS: 900, Solver: Z3New, Samples: 5, WallLimitS: 3600,
	}
}

func cmdRun(args []string) {
	cfg := defaultConfig()
	fs := flag.NewFlagSet("run", flag.ExitOnError)
	fs.StringVar(&cfg.Pkg, "pkg", "", "package directory relative to the module root")
	fs.StringVar(&cfg.Harness, "harness", "", "harness function")
	fs.StringVar(&cfg.RepoDir, "repo", cfg.RepoDir, "")
	fs.StringVar(&cfg.VerifDir, "verif", cfg.VerifDir, "")
	fs.IntVar(&cfg.Workers, "workers", cfg.Workers, "")
	fs.Int64Var(&cfg.Budget, "budget", cfg.Budget, "instructions per path")
	fs.IntVar(&cfg.MaxPaths, "maxpaths", cfg.MaxPaths, "")
	fs.IntVar(&cfg.TimeoutMs, "timeout", cfg.TimeoutMs, "solver ms per query")
	fs.IntVar(&cfg.WallLimitS, "wall", cfg.WallLimitS, "wall-clock limit in seconds")
	fs.BoolVar(&cfg.Verbose, "v", false, "")
	fs.BoolVar(&cfg.Merge, "merge", false, "if-convert side-effect-free diamonds instead of forking")
	fs.StringVar(&cfg.SMTLog, "smtlog", "", "")
	fs.StringVar(&cfg.DumpUnknown, "dumpunknown", "", "file prefix for standalone dumps of queries answered unknown")
	out := fs.String("out", "", "result file")
	prof := fs.String("cpuprofile", "", "")
	memprof := fs.String("memprofile", "", "")
	solver := fs.String("solver", "z3-new", "")
	params := paramFlags(cfg.Params)
	fs.Var(params, "param", "k=v harness parameter")
	fs.Parse(args)
	switch *solver {
	case "z3":
		cfg.Solver = Z3
	case "z3-new":
		cfg.Solver = Z3New
	case "cvc5":
		cfg.Solver = CVC5
	}
	if *prof != "" {
		f, _ := os.Create(*prof)
		pprof.StartCPUProfile(f)
	}
	res, err := runHarness(cfg)
	if *prof != "" {
		pprof.StopCPUProfile()
	}
	if *memprof != "" {
		f, _ := os.Create(*memprof)
		pprof.WriteHeapProfile(f)
		f.Close()
	}
	if err != nil {
		fmt.Fprintln(os.Stderr, "error:", err)
		os.Exit(2)
	}
	b, _ := json.MarshalIndent(res, "", " ")
	if *out != "" {
		os.WriteFile(*out, b, 0644)
	}
	// summary
	fmt.Printf("harness %s/%s: paths=%d %v forks=%d steps=%d queries=%d (sat %d unsat %d unknown %d) solver=%.2fs busy=%.2fs wall=%.2fs\n",
		res.Pkg, res.Harness, res.Paths, res.ByStatus, res.Forks, res.Steps, res.Queries, res.Sat, res.Unsat, res.Unknown, res.SolverS, res.BusyS, res.WallS)
	for _, v := range res.Violations {
		fmt.Printf("  VIOLATION-CANDIDATE kind=%s label=%q msg=%q count=%d vec=%v\n    stack: %s\n", v.Kind, v.Label, v.Msg, v.Count, v.HasVec, v.Stack)
	}
	for _, s := range res.Inconclusive {
		fmt.Printf("  INCONCLUSIVE %s\n", s)
	}
	fmt.Printf("  reach: %v\n", res.Reach)
}

func cmdSelftest() {
	if err := selftestRewrites(); err != nil {
		fmt.Fprintln(os.Stderr, "selftest failed:", err)
		os.Exit(1)
	}
	fmt.Println("selftest ok")
}

func matchesAny(res []string, key string) bool {
	for _, r := range res {
		if ok, _ := regexp.MatchString("^(?:"+r+")$", key); ok {
			return true
		}
	}
	return false
}
