package main

// Driver: gosym check <property> [--tier quick|thorough]
// Runs every harness of the property, replays counterexamples and sample
// paths natively, compares with known_findings.json, writes the evidence file
// and sets the exit code (DESIGN §4).

import (
	"bytes"
	"crypto/sha1"
	"encoding/json"
	"fmt"
	"os"
	"os/exec"
	"path/filepath"
	"regexp"
	"sort"
	"strconv"
	"strings"
	"time"
)

type TierSpec struct {
	Params   map[string]int `json:"params,omitempty"`
	Budget   int64          `json:"budget,omitempty"`
	MaxPaths int            `json:"max_paths,omitempty"`
	WallS    int            `json:"wall_s,omitempty"`
	Skip     bool           `json:"skip,omitempty"`
	Timeout  int            `json:"solver_timeout_ms,omitempty"`
}

type HarnessSpec struct {
	Pkg         string            `json:"pkg"`
	Name        string            `json:"name"`
	Kernel      string            `json:"kernel"`
	Quick       TierSpec          `json:"quick"`
	Thorough    TierSpec          `json:"thorough"`
	Reach       []string          `json:"reach"`
	Bounds      string            `json:"bounds"`
	Outside     string            `json:"outside"`
	Env         map[string]string `json:"env,omitempty"`
	NoReplay    string            `json:"no_replay,omitempty"` // reason, if counterexamples of this harness cannot be replayed natively
	Termination bool              `json:"termination,omitempty"`
	AllocLimit  int               `json:"alloc_limit,omitempty"`
	ReplaySecs  int               `json:"replay_timeout_s,omitempty"`
	MaxConc     int               `json:"max_concretize,omitempty"`
	Solver      string            `json:"solver,omitempty"`
	Merge       bool              `json:"merge,omitempty"`
}

type PropSpec struct {
	Harnesses   []HarnessSpec `json:"harnesses"`
	Assumptions []string      `json:"assumptions"`
	Outside     []string      `json:"outside_claim"`
}

type Index struct {
	Properties map[string]*PropSpec `json:"properties"`
}

type KnownFinding struct {
	Property string `json:"property"`
	Harness  string `json:"harness"`
	Key      string `json:"key"`  // kind|label|message class (regexp, anchored)
	What     string `json:"what"` // human description
	Status   string `json:"status"` // known | fixed
	Commit   string `json:"commit,omitempty"`
}

type KnownFile struct {
	Findings []KnownFinding `json:"findings"`
	Fixed    []string       `json:"fixed"`
}

type replayOutcome struct {
	Result string
	Output string
	Reach  []string
	Obs    []string
}

var harnessFuncRe = regexp.MustCompile(`(?m)^func (H_\w+)\(\)`)

// buildReplayBinary compiles the native test binary of a harness package (once per check run)
func buildReplayBinary(cfg *RunConfig, pkg string, workdir string) (string, error) {
	excluded := map[string]bool{}
	for attempt := 0; ; attempt++ {
		bin, out, err := buildReplayBinaryOnce(cfg, pkg, workdir, excluded)
		if err == nil {
			return bin, nil
		}
		// drop harness files that no longer compile against the tree (see loadProgram) and retry
		progress := false
		for _, m := range regexp.MustCompile(`(zz_verif_[\w]+\.go):\d+`).FindAllStringSubmatch(out, -1) {
			b := m[1]
			if strings.Contains(b, "_util") || strings.Contains(b, "_refpeer") || strings.Contains(b, "_reflzh") || b == "zz_verif_sym.go" || b == "zz_verif_replay_test.go" || excluded[b] {
				continue
			}
			excluded[b] = true
			progress = true
		}
		if !progress || attempt > 6 {
			return "", err
		}
	}
}

func buildReplayBinaryOnce(cfg *RunConfig, pkg string, workdir string, excluded map[string]bool) (string, string, error) {
	hdir := filepath.Join(cfg.VerifDir, "harness", pkg)
	all, _ := filepath.Glob(filepath.Join(hdir, "*.go"))
	var files []string
	for _, f := range all {
		if !excluded[filepath.Base(f)] {
			files = append(files, f)
		}
	}
	replace := map[string]string{}
	pkgName := ""
	var names []string
	for _, f := range files {
		b, _ := os.ReadFile(f)
		replace[filepath.Join(cfg.RepoDir, pkg, filepath.Base(f))] = f
		if m := regexp.MustCompile(`(?m)^package\s+(\w+)`).FindStringSubmatch(string(b)); m != nil && pkgName == "" {
			pkgName = m[1]
		}
		if strings.HasSuffix(f, "_test.go") {
			continue
		}
		for _, m := range harnessFuncRe.FindAllStringSubmatch(string(b), -1) {
			names = append(names, m[1])
		}
	}
	sort.Strings(names)
	symSrc, err := os.ReadFile(filepath.Join(cfg.VerifDir, "harness", "zz_verif_sym.go.tmpl"))
	if err != nil {
		return "", "", err
	}
	symFile := filepath.Join(workdir, "zz_verif_sym.go")
	os.WriteFile(symFile, []byte(strings.Replace(string(symSrc), "package PKG", "package "+pkgName, 1)), 0644)
	replace[filepath.Join(cfg.RepoDir, pkg, "zz_verif_sym.go")] = symFile
	var tb strings.Builder
	fmt.Fprintf(&tb, "package %s\n\nimport (\n\t\"fmt\"\n\t\"os\"\n\t\"runtime\"\n\t\"strconv\"\n\t\"testing\"\n\t\"time\"\n)\n\n", pkgName)
	tb.WriteString("var verifHarnesses = map[string]func(){\n")
	for _, n := range names {
		fmt.Fprintf(&tb, "\t%q: %s,\n", n, n)
	}
	tb.WriteString("}\n\n")
	tb.WriteString(`func TestVerifReplay(t *testing.T) {
	h := verifHarnesses[os.Getenv("VERIF_HARNESS")]
	if h == nil {
		fmt.Println("VERIF-RESULT no-such-harness")
		return
	}
	secs, _ := strconv.Atoi(os.Getenv("VERIF_REPLAY_TIMEOUT"))
	if secs <= 0 {
		secs = 20
	}
	limit, _ := strconv.Atoi(os.Getenv("VERIF_REPLAY_MEMLIMIT_MB"))
	if limit <= 0 {
		limit = 1024
	}
	go func() {
		var ms runtime.MemStats
		for {
			time.Sleep(20 * time.Millisecond)
			runtime.ReadMemStats(&ms)
			if ms.HeapAlloc > uint64(limit)<<20 {
				fmt.Println("VERIF-RESULT alloc heap exceeded", limit, "MB")
				os.Exit(0)
			}
		}
	}()
	done := make(chan string, 1)
	go func() {
		defer func() {
			switch x := recover().(type) {
			case nil:
				if symAllocExceeded() {
					done <- "alloc more bytes allocated than the harness limit"
				} else {
					done <- "ok"
				}
			case symAssertFail:
				done <- "assert-fail " + x.Label
			case symAssumeFail:
				done <- "assume-fail"
			default:
				done <- "panic " + fmt.Sprint(x)
			}
		}()
		h()
	}()
	select {
	case r := <-done:
		fmt.Println("VERIF-RESULT " + r)
	case <-time.After(time.Duration(secs) * time.Second):
		fmt.Println("VERIF-RESULT timeout")
		os.Exit(0)
	}
}
`)
	testFile := filepath.Join(workdir, "zz_verif_replay_test.go")
	os.WriteFile(testFile, []byte(tb.String()), 0644)
	replace[filepath.Join(cfg.RepoDir, pkg, "zz_verif_replay_test.go")] = testFile
	ov, _ := json.Marshal(map[string]interface{}{"Replace": replace})
	ovFile := filepath.Join(workdir, "overlay.json")
	os.WriteFile(ovFile, ov, 0644)
	bin := filepath.Join(workdir, "replay.test")
	cmd := exec.Command("go", "test", "-c", "-vet=off", "-overlay", ovFile, "-o", bin, "./"+pkg)
	cmd.Dir = cfg.RepoDir
	cmd.Env = append(os.Environ(), "GOTOOLCHAIN=go1.24.0", "GOFLAGS=-mod=mod", "GOPROXY=off")
	out, err := cmd.CombinedOutput()
	if err != nil {
		return "", string(out), fmt.Errorf("building replay binary for %s: %v\n%s", pkg, err, out)
	}
	return bin, "", nil
}

func runReplay(bin string, cfg *RunConfig, h *HarnessSpec, params map[string]int, vec []VecEntry, workdir string) replayOutcome {
	vf := filepath.Join(workdir, fmt.Sprintf("vec-%d.json", time.Now().UnixNano()))
	b, _ := json.Marshal(vec)
	os.WriteFile(vf, b, 0644)
	defer os.Remove(vf)
	secs := h.ReplaySecs
	if secs <= 0 {
		secs = 20
	}
	cmd := exec.Command("timeout", "-s", "KILL", strconv.Itoa(secs+30), bin, "-test.run", "^TestVerifReplay$", "-test.count=1", "-test.timeout", "0")
	cmd.Dir = filepath.Join(cfg.RepoDir, h.Pkg)
	if _, err := os.Stat(cmd.Dir); err != nil {
		cmd.Dir = cfg.RepoDir
	}
	env := append(os.Environ(), "VERIF_HARNESS="+h.Name, "VERIF_VECTOR="+vf, fmt.Sprintf("VERIF_REPLAY_TIMEOUT=%d", secs))
	for k, v := range params {
		env = append(env, fmt.Sprintf("VERIF_PARAM_%s=%d", k, v))
	}
	for k, v := range h.Env {
		env = append(env, k+"="+v)
	}
	cmd.Env = env
	out, _ := cmd.CombinedOutput()
	o := replayOutcome{Output: string(out)}
	for _, l := range strings.Split(string(out), "\n") {
		switch {
		case strings.HasPrefix(l, "VERIF-RESULT "):
			o.Result = strings.TrimPrefix(l, "VERIF-RESULT ")
		case strings.HasPrefix(l, "VERIF-REACH "):
			o.Reach = append(o.Reach, strings.TrimPrefix(l, "VERIF-REACH "))
		case strings.HasPrefix(l, "VERIF-OBS "):
			o.Obs = append(o.Obs, strings.TrimPrefix(l, "VERIF-OBS "))
		}
	}
	if o.Result == "" {
		// the process died without reporting: crash (panic in another goroutine, fatal error, os.Exit, log.Fatal)
		o.Result = "crash"
		if strings.Contains(string(out), "fatal error: all goroutines are asleep") {
			o.Result = "deadlock"
		}
	}
	return o
}

// does the native outcome confirm the symbolic violation?
func confirms(v *ViolationRec, o replayOutcome) bool {
	switch v.Kind {
	case "assert":
		return o.Result == "assert-fail "+v.Label
	case "panic":
		return strings.HasPrefix(o.Result, "panic") || o.Result == "crash"
	case "bound":
		return o.Result == "timeout" || strings.HasPrefix(o.Result, "alloc")
	case "alloc":
		return strings.HasPrefix(o.Result, "alloc") || o.Result == "crash" || (strings.HasPrefix(o.Result, "panic") && strings.Contains(o.Result, "out of range")) || strings.Contains(o.Output, "out of memory")
	case "blocked":
		// a hang: natively a watchdog time-out, a runtime deadlock report, or the
		// harness's own lateness assertion once the native peer gives up
		return o.Result == "timeout" || o.Result == "deadlock" || strings.HasPrefix(o.Result, "assert-fail")
	}
	return false
}

type harnessEvidence struct {
	Harness      string         `json:"harness"`
	Pkg          string         `json:"pkg"`
	Kernel       string         `json:"kernel"`
	Params       map[string]int `json:"params"`
	Bounds       string         `json:"bounds"`
	Outside      string         `json:"outside_claim"`
	Paths        int            `json:"paths"`
	ByStatus     map[string]int `json:"paths_by_status"`
	Forks        int            `json:"fork_decisions"`
	Steps        int64          `json:"ssa_instructions_executed"`
	Queries      int            `json:"solver_queries"`
	Sat          int            `json:"sat"`
	Unsat        int            `json:"unsat"`
	Unknown      int            `json:"unknown"`
	Solver       string         `json:"deciding_solver"`
	SolverS      float64        `json:"solver_s"`
	SlowestS     float64        `json:"slowest_query_s"`
	WallS        float64        `json:"wall_s"`
	Reach        map[string]int `json:"reach"`
	Functions    map[string]int `json:"functions_encoded"`
	Intrinsics   map[string]int `json:"intrinsics"`
	Stubs        []string       `json:"stubs"`
	Replayed     int            `json:"vectors_replayed_natively"`
	ReplayAgree  int            `json:"replays_agreeing"`
	Violations   []string       `json:"violations"`
	Known        []string       `json:"known_findings"`
	Inconclusive []string       `json:"inconclusive"`
	Budget       int64          `json:"instruction_budget_per_path"`
}

func cmdCheck(args []string) {
	if len(args) < 1 {
		fmt.Fprintln(os.Stderr, "usage: gosym check <property> [--tier quick|thorough]")
		os.Exit(2)
	}
	prop := args[0]
	tier := os.Getenv("VERIF_TIER")
	verifDir := "/verif"
	repoDir := "/repo"
	only := ""
	verbose := false
	for i := 1; i < len(args); i++ {
		switch args[i] {
		case "--tier":
			i++
			tier = args[i]
		case "--verif":
			i++
			verifDir = args[i]
		case "--repo":
			i++
			repoDir = args[i]
		case "--only":
			i++
			only = args[i]
		case "-v":
			verbose = true
		}
	}
	if tier != "thorough" {
		tier = "quick"
	}
	seed, _ := strconv.Atoi(os.Getenv("VERIF_SEED"))
	t0 := time.Now()
	var idx Index
	b, err := os.ReadFile(filepath.Join(verifDir, "harness", "index.json"))
	if err != nil {
		fmt.Fprintln(os.Stderr, err)
		os.Exit(2)
	}
	if err := json.Unmarshal(b, &idx); err != nil {
		fmt.Fprintln(os.Stderr, "index.json:", err)
		os.Exit(2)
	}
	ps := idx.Properties[prop]
	if ps == nil {
		fmt.Fprintln(os.Stderr, "no such property in index:", prop)
		os.Exit(2)
	}
	var known KnownFile
	if kb, err := os.ReadFile(filepath.Join(verifDir, "known_findings.json")); err == nil {
		json.Unmarshal(kb, &known)
	}
	workdir, _ := os.MkdirTemp("", "gosym-"+prop+"-")
	defer os.RemoveAll(workdir)
	replayDir := filepath.Join(verifDir, "replays", prop)
	os.MkdirAll(replayDir, 0755)

	exit := 0
	var hev []harnessEvidence
	var samples []interface{}
	totalPaths, totalForks, totalReplayed := 0, 0, 0
	nViol := 0
	bins := map[string]string{}
	getBin := func(cfg *RunConfig, pkg string) (string, error) {
		if b, ok := bins[pkg]; ok {
			return b, nil
		}
		wd := filepath.Join(workdir, strings.ReplaceAll(pkg, "/", "_"))
		os.MkdirAll(wd, 0755)
		b, err := buildReplayBinary(cfg, pkg, wd)
		if err == nil {
			bins[pkg] = b
		}
		return b, err
	}
	knownPrinted := map[string]bool{}

	for hi := range ps.Harnesses {
		h := &ps.Harnesses[hi]
		if only != "" && h.Name != only {
			continue
		}
		ts := h.Quick
		if tier == "thorough" {
			ts = h.Thorough
			if ts.Params == nil && ts.Budget == 0 && ts.MaxPaths == 0 && !ts.Skip {
				ts = h.Quick
			}
		}
		if ts.Skip {
			continue
		}
		cfg := defaultConfig()
		cfg.RepoDir, cfg.VerifDir = repoDir, verifDir
		cfg.Pkg, cfg.Harness = h.Pkg, h.Name
		cfg.Verbose = verbose
		for k, v := range ts.Params {
			cfg.Params[k] = v
		}
		for k, v := range h.Env {
			cfg.Env[k] = v
		}
		for i := range known.Findings {
			if k := &known.Findings[i]; k.Property == prop && k.Status == "known" && (k.Harness == "" || k.Harness == h.Name) {
				cfg.KnownKeys = append(cfg.KnownKeys, k.Key)
			}
		}
		if ts.Budget > 0 {
			cfg.Budget = ts.Budget
		}
		if ts.MaxPaths > 0 {
			cfg.MaxPaths = ts.MaxPaths
		}
		if ts.WallS > 0 {
			cfg.WallLimitS = ts.WallS
		}
		if ts.Timeout > 0 {
			cfg.TimeoutMs = ts.Timeout
		}
		if h.AllocLimit > 0 {
			cfg.AllocLimit = h.AllocLimit
		}
		if h.MaxConc > 0 {
			cfg.MaxConcretize = h.MaxConc
		}
		cfg.Merge = h.Merge
		switch h.Solver {
		case "cvc5":
			cfg.Solver = CVC5
		case "z3":
			cfg.Solver = Z3
		}
		if tier == "thorough" {
			cfg.OneShotMs = 120_000
		}
		res, err := runHarness(cfg)
		if err != nil {
			fmt.Printf("INCONCLUSIVE property=%s harness=%s: %v\n", prop, h.Name, err)
			exit = max(exit, 2)
			continue
		}
		ev := harnessEvidence{Harness: h.Name, Pkg: h.Pkg, Kernel: h.Kernel, Params: cfg.Params, Bounds: h.Bounds, Outside: h.Outside,
			Paths: res.Paths, ByStatus: res.ByStatus, Forks: res.Forks, Steps: res.Steps, Queries: res.Queries, Sat: res.Sat, Unsat: res.Unsat,
			Unknown: res.Unknown, Solver: res.Solver, SolverS: res.SolverS, SlowestS: res.SlowestS, WallS: res.WallS, Reach: res.Reach, Functions: res.Functions,
			Intrinsics: res.Intrinsics, Stubs: res.Stubs, Inconclusive: res.Inconclusive, Budget: cfg.Budget}
		totalPaths += res.Paths
		totalForks += res.Forks
		fmt.Printf("harness %s/%s [%s]: paths=%d %v queries=%d unknown=%d solver=%.1fs wall=%.1fs\n", h.Pkg, h.Name, tier, res.Paths, res.ByStatus, res.Queries, res.Unknown, res.SolverS, res.WallS)

		// inconclusive paths
		for _, s := range res.Inconclusive {
			fmt.Printf("INCONCLUSIVE property=%s harness=%s: %s\n", prop, h.Name, s)
			exit = max(exit, 2)
		}
		// vacuity
		for _, r := range h.Reach {
			if res.Reach[r] == 0 {
				fmt.Printf("INCONCLUSIVE property=%s harness=%s: reach label %q was reached by no feasible path (vacuity)\n", prop, h.Name, r)
				exit = max(exit, 2)
			}
		}
		// violations: replay, then known / new
		for _, v := range res.Violations {
			isKnown := false
			var kf *KnownFinding
			for i := range known.Findings {
				k := &known.Findings[i]
				if k.Property != prop || k.Status != "known" || (k.Harness != "" && k.Harness != h.Name) {
					continue
				}
				if ok, _ := regexp.MatchString("^(?:"+k.Key+")$", v.Key); ok {
					isKnown, kf = true, k
					break
				}
			}
			confirmed := false
			detail := ""
			if !v.HasVec {
				detail = "no model available for the violating path"
			} else if h.NoReplay != "" {
				confirmed = true
				detail = "native replay not available: " + h.NoReplay
			} else {
				bin, err := getBin(cfg, h.Pkg)
				if err != nil {
					detail = err.Error()
				} else {
					o := runReplay(bin, cfg, h, cfg.Params, v.Vector, workdir)
					totalReplayed++
					ev.Replayed++
					confirmed = confirms(v, o)
					if confirmed {
						ev.ReplayAgree++
					}
					detail = "native: " + o.Result
					if !confirmed && verbose {
						fmt.Println(o.Output)
					}
				}
			}
			desc := fmt.Sprintf("%s kind=%s label=%q msg=%q paths=%d (%s)", h.Name, v.Kind, v.Label, v.Msg, v.Count, detail)
			if !confirmed {
				fmt.Printf("ENGINE-MISMATCH property=%s %s\n  stack: %s\n", prop, desc, v.Stack)
				ev.Inconclusive = append(ev.Inconclusive, "engine-mismatch: "+desc)
				exit = max(exit, 2)
				continue
			}
			if isKnown {
				ev.Known = append(ev.Known, desc)
				if !knownPrinted[kf.What] {
					knownPrinted[kf.What] = true
					fmt.Printf("KNOWN-FINDING: property=%s %s\n", prop, kf.What)
				}
				continue
			}
			// new violation: write the replay file
			sum := sha1.Sum([]byte(v.Key))
			rp := filepath.Join(replayDir, fmt.Sprintf("%s-%x.json", h.Name, sum[:4]))
			rb, _ := json.MarshalIndent(map[string]interface{}{
				"property": prop, "pkg": h.Pkg, "harness": h.Name, "params": cfg.Params, "env": h.Env,
				"violation": v.Violation, "key": v.Key, "vector": v.Vector, "native": detail,
			}, "", " ")
			os.WriteFile(rp, rb, 0644)
			fmt.Printf("VIOLATION property=%s replay=%s\n  %s\n  stack: %s\n", prop, rp, desc, v.Stack)
			ev.Violations = append(ev.Violations, desc)
			nViol++
			exit = max(exit, 1)
		}
		// translator validation: replay sampled passing paths natively
		if h.NoReplay == "" && len(res.Samples) > 0 {
			bin, err := getBin(cfg, h.Pkg)
			if err != nil {
				fmt.Printf("INCONCLUSIVE property=%s harness=%s: %v\n", prop, h.Name, err)
				exit = max(exit, 2)
			} else {
				for _, s := range res.Samples {
					o := runReplay(bin, cfg, h, cfg.Params, s.Vector, workdir)
					totalReplayed++
					ev.Replayed++
					agree := o.Result == "ok" && sameSet(o.Reach, s.Reach) && sameList(o.Obs, s.Observed)
					if agree {
						ev.ReplayAgree++
					} else {
						fmt.Printf("ENGINE-MISMATCH property=%s harness=%s: passing path does not replay natively: native=%s reach=%v obs=%v, engine reach=%v obs=%v\n", prop, h.Name, o.Result, o.Reach, o.Obs, s.Reach, s.Observed)
						if verbose {
							fmt.Println(o.Output)
						}
						exit = max(exit, 2)
					}
				}
			}
		}
		for i, s := range res.Samples {
			if i < 2 {
				samples = append(samples, map[string]interface{}{"harness": h.Name, "path_model_vector": s.Vector, "reach": s.Reach, "observed": s.Observed})
			}
		}
		hev = append(hev, ev)
	}

	// evidence
	if totalPaths == 0 {
		totalPaths = 0
	}
	assumptions := append([]string{
		"bounded: every claim holds only inside the per-harness bounds listed under coverage.harnesses[].bounds",
		"engine intrinsics and harness stubs listed per harness are trusted models of the documented behaviour",
		"one deterministic cooperative schedule for goroutines; virtual clock",
		"z3 5.1.0 (z3-new) is the deciding solver; unknown answers are never counted as a pass",
	}, ps.Assumptions...)
	if len(samples) == 0 {
		samples = append(samples, "no passing path sampled")
	}
	evd := map[string]interface{}{
		"property_id": prop, "tier": tier, "seed": seed, "level": "model_checking",
		"coverage": map[string]interface{}{
			"states":                        max(totalPaths, 0),
			"transitions":                   totalForks,
			"traces_validated_against_impl": totalReplayed,
			"samples":                       samples,
			"harnesses":                     hev,
			"outside_claim":                 ps.Outside,
			"technique":                     "bounded symbolic execution of go/ssa (rebuilt from /repo on this run) with z3 deciding every assertion and run-time check on every path; counterexamples replayed natively",
			"exhaustive":                    false,
		},
		"assumptions": assumptions,
		"wall_s":      time.Since(t0).Seconds(),
		"violations":  nViol,
	}
	os.MkdirAll(filepath.Join(verifDir, "evidence"), 0755)
	eb, _ := json.MarshalIndent(evd, "", " ")
	var pretty bytes.Buffer
	pretty.Write(eb)
	os.WriteFile(filepath.Join(verifDir, "evidence", prop+".json"), pretty.Bytes(), 0644)
	if nViol > 0 {
		exit = 1 // a reproduced violation takes precedence over inconclusive items
	}
	if exit == 0 {
		fmt.Printf("OK property=%s tier=%s paths=%d replays=%d wall=%.1fs\n", prop, tier, totalPaths, totalReplayed, time.Since(t0).Seconds())
	}
	os.RemoveAll(workdir)
	os.Exit(exit)
}

func sameSet(a, b []string) bool {
	x := append([]string(nil), a...)
	y := append([]string(nil), b...)
	sort.Strings(x)
	sort.Strings(y)
	x, y = uniq(x), uniq(y)
	return sameList(x, y)
}

func uniq(a []string) []string {
	var r []string
	for i, s := range a {
		if i == 0 || s != a[i-1] {
			r = append(r, s)
		}
	}
	return r
}

func sameList(a, b []string) bool {
	if len(a) != len(b) {
		return false
	}
	for i := range a {
		if a[i] != b[i] {
			return false
		}
	}
	return true
}



// gosym replay <file>: native re-run of one stored counterexample against /repo's working tree
func cmdReplay(args []string) {
	if len(args) < 1 {
		fmt.Fprintln(os.Stderr, "usage: gosym replay <replay.json>")
		os.Exit(2)
	}
	b, err := os.ReadFile(args[0])
	if err != nil {
		fmt.Fprintln(os.Stderr, err)
		os.Exit(2)
	}
	var rp struct {
		Property  string            `json:"property"`
		Pkg       string            `json:"pkg"`
		Harness   string            `json:"harness"`
		Params    map[string]int    `json:"params"`
		Env       map[string]string `json:"env"`
		Violation Violation         `json:"violation"`
		Vector    []VecEntry        `json:"vector"`
	}
	if err := json.Unmarshal(b, &rp); err != nil {
		fmt.Fprintln(os.Stderr, err)
		os.Exit(2)
	}
	cfg := defaultConfig()
	workdir, _ := os.MkdirTemp("", "gosym-replay-")
	defer os.RemoveAll(workdir)
	bin, err := buildReplayBinary(cfg, rp.Pkg, workdir)
	if err != nil {
		fmt.Fprintln(os.Stderr, err)
		os.Exit(2)
	}
	h := &HarnessSpec{Pkg: rp.Pkg, Name: rp.Harness, Env: rp.Env, ReplaySecs: 30}
	o := runReplay(bin, cfg, h, rp.Params, rp.Vector, workdir)
	fmt.Printf("native result: %s\n", o.Result)
	v := &ViolationRec{Violation: rp.Violation}
	if confirms(v, o) {
		fmt.Printf("VIOLATION property=%s replay=%s\n  reproduced natively: %s %q\n", rp.Property, args[0], rp.Violation.Kind, rp.Violation.Label)
		os.RemoveAll(workdir)
		os.Exit(1)
	}
	fmt.Println("not reproduced on the current tree")
}
