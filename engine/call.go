package main

// Calls, builtins, defer / panic / recover.

import (
	"fmt"
	"go/token"
	"go/types"
	"strings"

	"golang.org/x/tools/go/ssa"
)

func (e *Exec) prepareCall(fr *frame, c *ssa.CallCommon) (Value, []Value) {
	if c.IsInvoke() {
		recv, ok := e.get(fr, c.Value).(Iface)
		if !ok {
			e.unsupported("invoke on non-interface value")
		}
		if recv.t == nil {
			e.goPanicRuntime("invalid memory address or nil pointer dereference (method call on nil interface)")
		}
		fn := e.prog.ssa.LookupMethod(recv.t, c.Method.Pkg(), c.Method.Name())
		if fn == nil {
			e.unsupported(fmt.Sprintf("method %s not found on %s", c.Method.Name(), recv.t))
		}
		args := make([]Value, 0, len(c.Args)+1)
		args = append(args, e.copyVal(recv.v))
		for _, a := range c.Args {
			args = append(args, e.get(fr, a))
		}
		return fn, args
	}
	fn := e.get(fr, c.Value)
	args := make([]Value, len(c.Args))
	for i, a := range c.Args {
		args[i] = e.get(fr, a)
	}
	return fn, args
}

// invoke a method by name on an interface value (used by intrinsics)
func (e *Exec) invoke(recv Iface, name string, args ...Value) Value {
	if recv.t == nil {
		e.goPanicRuntime("invalid memory address or nil pointer dereference (method call on nil interface)")
	}
	ms := e.prog.ssa.MethodSets.MethodSet(recv.t)
	var sel *types.Selection
	for i := 0; i < ms.Len(); i++ {
		if ms.At(i).Obj().Name() == name {
			sel = ms.At(i)
			break
		}
	}
	if sel == nil {
		e.unsupported(fmt.Sprintf("method %s not found on %s", name, recv.t))
	}
	fn := e.prog.ssa.MethodValue(sel)
	all := append([]Value{e.copyVal(recv.v)}, args...)
	return e.callFunction(fn, all, nil, nil)
}

func (e *Exec) hasMethod(t types.Type, name string) bool {
	ms := e.prog.ssa.MethodSets.MethodSet(t)
	for i := 0; i < ms.Len(); i++ {
		if ms.At(i).Obj().Name() == name {
			return true
		}
	}
	return false
}

func (e *Exec) call(fn Value, args []Value, site ssa.CallInstruction) Value {
	var common *ssa.CallCommon
	if site != nil {
		common = site.Common()
	}
	switch f := fn.(type) {
	case *ssa.Function:
		return e.callFunction(f, args, nil, common)
	case *Closure:
		return e.callFunction(f.fn, args, f.env, common)
	case *ssa.Builtin:
		return e.builtin(f, args, common)
	case *NativeFn:
		return f.fn(e, args)
	case FuncNil:
		e.goPanicRuntime("invalid memory address or nil pointer dereference (call of nil func)")
	}
	e.unsupported(fmt.Sprintf("call of %T", fn))
	return nil
}

func fnKey(fn *ssa.Function) string {
	if o := fn.Origin(); o != nil {
		return o.String()
	}
	return fn.String()
}

func (e *Exec) callFunction(fn *ssa.Function, args []Value, env []Value, site *ssa.CallCommon) Value {
	key := fnKey(fn)
	if fn.Pkg != nil && fn.Name() == "init" && fn.Synthetic != "" && fn == fn.Pkg.Func("init") {
		// package initialiser reached through an import edge
		if e.inited[fn.Pkg] && e.initRunning[fn.Pkg] == false && e.initDone[fn.Pkg] {
			return nil
		}
		if !e.prog.initOK(fn.Pkg.Pkg.Path()) {
			e.inited[fn.Pkg] = true
			e.initDone[fn.Pkg] = true
			return nil
		}
		e.inited[fn.Pkg] = true
		if e.initDone[fn.Pkg] || e.initRunning[fn.Pkg] {
			return nil
		}
		e.initRunning[fn.Pkg] = true
		r := e.callSSA(fn, args, env)
		e.initRunning[fn.Pkg] = false
		e.initDone[fn.Pkg] = true
		return r
	}
	if isSymFn(fn) {
		if v, ok := e.symIntercept(fn.Name(), args); ok {
			return v
		}
	}
	if !e.inInit {
		if stub, ok := e.prog.stubs[key]; ok && (e.cur.top == nil || e.cur.top.fn != stub) {
			return e.callSSA(stub, args, nil)
		}
	}
	if in, ok := intrinsics[key]; ok {
		e.intrUsed[key]++
		return in(e, args, fn)
	}
	if fn.Blocks == nil {
		e.unsupported("call of external function without model: " + key)
	}
	return e.callSSA(fn, args, env)
}

// ---------- builtins ----------

func (e *Exec) builtin(b *ssa.Builtin, args []Value, site *ssa.CallCommon) Value {
	tc := e.tc
	switch b.Name() {
	case "len":
		switch v := args[0].(type) {
		case Str:
			return tc.Const(64, uint64(v.Len()))
		case Slice:
			return tc.Const(64, uint64(v.len))
		case *MapObj:
			if v == nil {
				return tc.Const(64, 0)
			}
			return tc.Const(64, uint64(len(v.keys)))
		case *ChanObj:
			if v == nil {
				return tc.Const(64, 0)
			}
			return tc.Const(64, uint64(len(v.buf)))
		case Agg:
			at := site.Args[0].Type().Underlying().(*types.Array)
			return tc.Const(64, uint64(at.Len()))
		case Ptr:
			at := site.Args[0].Type().Underlying().(*types.Pointer).Elem().Underlying().(*types.Array)
			return tc.Const(64, uint64(at.Len()))
		}
	case "cap":
		switch v := args[0].(type) {
		case Slice:
			return tc.Const(64, uint64(v.cap))
		case *ChanObj:
			if v == nil {
				return tc.Const(64, 0)
			}
			return tc.Const(64, uint64(v.cap))
		case Agg:
			at := site.Args[0].Type().Underlying().(*types.Array)
			return tc.Const(64, uint64(at.Len()))
		case Ptr:
			at := site.Args[0].Type().Underlying().(*types.Pointer).Elem().Underlying().(*types.Array)
			return tc.Const(64, uint64(at.Len()))
		}
	case "append":
		return e.appendOp(args, site)
	case "copy":
		return e.copyOp(args, site)
	case "delete":
		e.mapDelete(args[0].(*MapObj), args[1])
		return nil
	case "clear":
		switch v := args[0].(type) {
		case *MapObj:
			if v != nil {
				e.mapSave(v)
				v.keys, v.vals = nil, nil
			}
		case Slice:
			et := site.Args[0].Type().Underlying().(*types.Slice).Elem()
			ec := e.cellsOf(et)
			for i := 0; i < v.len; i++ {
				e.store(Ptr{o: v.o, off: v.off + i*ec}, et, e.zero(et))
			}
		}
		return nil
	case "close":
		e.chanClose(args[0].(*ChanObj))
		return nil
	case "panic":
		e.goPanicValue(args[0].(Iface))
	case "recover":
		fr := e.cur.top
		if fr != nil && fr.caller != nil && fr.caller.panicking {
			fr.caller.panicking = false
			return fr.caller.panicVal.v
		}
		return Iface{}
	case "print", "println":
		return nil
	case "min", "max":
		res := args[0]
		for i := 1; i < len(args); i++ {
			xt := site.Args[0].Type()
			var lt *Term
			if b.Name() == "min" {
				lt = e.boolTerm(e.binop(token.LSS, xt, args[i], res, xt))
			} else {
				lt = e.boolTerm(e.binop(token.LSS, xt, res, args[i], xt))
			}
			switch r := res.(type) {
			case *Term:
				res = tc.Ite(lt, args[i].(*Term), r)
			default:
				if e.branch(lt) {
					res = args[i]
				}
			}
		}
		return res
	case "ssa:wrapnilchk":
		p := args[0].(Ptr)
		if p.o == nil {
			e.goPanicRuntime(fmt.Sprintf("value method %s.%s called using nil pointer", e.goString(args[1]), e.goString(args[2])))
		}
		return p
	case "String": // unsafe.String(ptr, len)
		p := args[0].(Ptr)
		n := e.concInt(args[1], "unsafe.String length")
		if n == 0 {
			return Str{}
		}
		b := make([]*Term, n)
		for i := 0; i < n; i++ {
			b[i] = e.intTerm(e.load(Ptr{o: p.o, off: p.off + i}, types.Typ[types.Uint8]))
		}
		return mkStr(b)
	case "StringData":
		s := args[0].(Str)
		if s.Len() == 0 {
			return Ptr{}
		}
		sl := e.newByteSliceFromString(s)
		return Ptr{o: sl.o, off: 0}
	case "SliceData":
		s := args[0].(Slice)
		if s.o == nil {
			return Ptr{}
		}
		return Ptr{o: s.o, off: s.off}
	case "Slice": // unsafe.Slice(ptr, len)
		p := args[0].(Ptr)
		n := e.concInt(args[1], "unsafe.Slice length")
		if p.o == nil {
			return Slice{}
		}
		et := site.Args[0].Type().Underlying().(*types.Pointer).Elem()
		ec := e.cellsOf(et)
		avail := (len(p.o.cells) - p.off) / max(ec, 1)
		if n > avail {
			e.unsupported("unsafe.Slice beyond object")
		}
		return Slice{o: p.o, off: p.off, len: n, cap: n}
	}
	e.unsupported("builtin " + b.Name())
	return nil
}

func (e *Exec) appendOp(args []Value, site *ssa.CallCommon) Value {
	s := args[0].(Slice)
	et := site.Args[0].Type().Underlying().(*types.Slice).Elem()
	ec := e.cellsOf(et)
	var add []Value
	switch t := args[1].(type) {
	case Str:
		for _, b := range t.Terms(e.tc) {
			add = append(add, b)
		}
	case Slice:
		if t.len == 0 {
			return s
		}
		add = make([]Value, t.len*ec)
		for i := range add {
			add[i] = e.loadCell(t.o, t.off+i)
		}
	default:
		e.unsupported(fmt.Sprintf("append of %T", args[1]))
	}
	if len(add) == 0 {
		return s
	}
	n := len(add) / max(ec, 1)
	if ec == 0 {
		n = args[1].(Slice).len
	}
	newLen := s.len + n
	if newLen <= s.cap && s.o != nil {
		for i, v := range add {
			e.storeCell(s.o, s.off+s.len*ec+i, v)
		}
		return Slice{o: s.o, off: s.off, len: newLen, cap: s.cap}
	}
	nc := s.cap * 2
	if nc < newLen {
		nc = newLen
	}
	if nc < 8 && ec == 1 {
		nc = 8
		if newLen > nc {
			nc = newLen
		}
	}
	if nc > e.allocLimit() {
		e.violation("alloc", "append", fmt.Sprintf("append grows slice to %d elements, over limit %d", nc, e.allocLimit()))
	}
	o := e.newObj(nc*ec, "append "+et.String())
	for i := 0; i < s.len*ec; i++ {
		o.cells[i] = e.loadCell(s.o, s.off+i)
	}
	copy(o.cells[s.len*ec:], add)
	// zero the spare capacity
	if nc > newLen {
		if ec == 1 && !isAgg(et) {
			z := e.zero(et)
			for i := newLen; i < nc; i++ {
				o.cells[i] = z
			}
		} else {
			for i := newLen; i < nc; i++ {
				e.fillZero(o.cells[i*ec:(i+1)*ec], et)
			}
		}
	}
	return Slice{o: o, off: 0, len: newLen, cap: nc}
}

func (e *Exec) loadCell(o *Obj, i int) Value {
	if len(o.regions) > 0 {
		if r := o.regionAt(i); r != nil {
			return e.tc.Select(r.arr, e.tc.Const(64, uint64(i-r.base)))
		}
	}
	return o.cells[i]
}

func (e *Exec) copyOp(args []Value, site *ssa.CallCommon) Value {
	dst := args[0].(Slice)
	et := site.Args[0].Type().Underlying().(*types.Slice).Elem()
	ec := e.cellsOf(et)
	var src []Value
	var n int
	switch t := args[1].(type) {
	case Str:
		n = min(dst.len, t.Len())
		for _, b := range t.Sub(0, n).Terms(e.tc) {
			src = append(src, b)
		}
	case Slice:
		n = min(dst.len, t.len)
		src = make([]Value, n*ec)
		for i := range src {
			src[i] = e.loadCell(t.o, t.off+i)
		}
	}
	for i, v := range src {
		e.storeCell(dst.o, dst.off+i, v)
	}
	return e.tc.Const(64, uint64(n))
}

// ---------- defer / panic ----------

// RunDefers in normal control flow: a panicking deferred call propagates to
// callSSA's handler, which runs the remaining defers in panicking mode.
func (e *Exec) runDefers(fr *frame) {
	for len(fr.defers) > 0 {
		d := fr.defers[len(fr.defers)-1]
		fr.defers = fr.defers[:len(fr.defers)-1]
		e.call(d.fn, d.args, d.inst)
	}
}

func (e *Exec) runDefersPanicking(fr *frame) {
	for len(fr.defers) > 0 {
		d := fr.defers[len(fr.defers)-1]
		fr.defers = fr.defers[:len(fr.defers)-1]
		if gp := e.callDeferred(d); gp != nil {
			fr.panicking = true
			fr.panicVal = gp
		}
	}
}

func (e *Exec) callDeferred(d *deferred) (gp *goPanic) {
	th := e.cur
	top := th.top
	depth := th.depth
	defer func() {
		if r := recover(); r != nil {
			p, ok := r.(*goPanic)
			if !ok {
				panic(r)
			}
			th.top = top
			th.depth = depth
			gp = p
		}
	}()
	e.call(d.fn, d.args, d.inst)
	return nil
}

func (e *Exec) goPanicValue(v Iface) {
	msg := e.panicMessage(v)
	panic(&goPanic{v: v, msg: msg, site: e.innermostRepoFn(), stack: e.stackString(12)})
}

func (e *Exec) panicMessage(v Iface) string {
	if v.t == nil {
		return "panic(nil)"
	}
	switch x := v.v.(type) {
	case Str:
		if x.Conc() {
			return x.s
		}
		return "<symbolic string>"
	case Ptr:
		// errors.errorString and friends: try the first string cell
		if x.o != nil && x.off < len(x.o.cells) {
			if s, ok := x.o.cells[x.off].(Str); ok && s.Conc() {
				return s.s
			}
		}
	}
	return v.t.String()
}

func (e *Exec) goPanicRuntime(msg string) {
	t := e.modelType("RuntimeError")
	v := Iface{t: t, v: Str{s: msg}}
	panic(&goPanic{v: v, msg: "runtime error: " + msg, site: e.innermostRepoFn(), stack: e.stackString(12)})
}

func (e *Exec) innermostRepoFn() string {
	if e.cur == nil {
		return ""
	}
	first := ""
	for fr := e.cur.top; fr != nil; fr = fr.caller {
		if first == "" {
			first = fr.fn.String()
		}
		if fr.fn.Pkg != nil && strings.HasPrefix(fr.fn.Pkg.Pkg.Path(), e.prog.modPath) && !strings.Contains(fr.fn.Name(), "zz_verif") {
			name := fr.fn.String()
			// strip closure suffixes for stability
			return name
		}
		if p := fr.fn.Parent(); p != nil && p.Pkg != nil && strings.HasPrefix(p.Pkg.Pkg.Path(), e.prog.modPath) {
			return fr.fn.String()
		}
	}
	return first
}
