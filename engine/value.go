package main

// Run-time values of the symbolic executor (DESIGN §2.2).
//
//   scalars        *Term (BV / Bool / FP sort)
//   string         Str   (concrete length; bytes concrete or terms)
//   pointer        Ptr   (object, cell offset, optional symbolic element index)
//   slice          Slice
//   struct/array   Agg   (flattened cells, value semantics)
//   interface      Iface
//   func           *ssa.Function | *Closure | *NativeFn | *ssa.Builtin | nil (FuncNil)
//   map            *MapObj (nil = nil map)
//   chan           *ChanObj
//   tuple          Tuple

import (
	"fmt"
	"go/types"
	"strings"

	"golang.org/x/tools/go/ssa"
)

type Value interface{}

type Obj struct {
	id    int
	cells []Value
	base  bool // existed before the path started (package state): writes are undone at path end
	desc  string
	// array-mode regions (symbolic indices into large scalar arrays)
	regions []*Region
}

type Region struct {
	base, count int
	ew          int
	arr         *Term
}

type SymIdx struct {
	idx    *Term // 64-bit
	stride int
	count  int
}

type Ptr struct {
	o   *Obj
	off int
	sym *SymIdx
}

func (p Ptr) IsNil() bool { return p.o == nil }

type Slice struct {
	o        *Obj
	off      int // in cells
	len, cap int // in elements
}

type Agg []Value

type Iface struct {
	t types.Type // nil = nil interface
	v Value
}

type Closure struct {
	fn  *ssa.Function
	env []Value
}

type NativeFn struct {
	name string
	fn   func(e *Exec, args []Value) Value
}

type FuncNil struct{}

type Tuple []Value

type MapObj struct {
	id    int
	keys  []Value
	vals  []Value
	kt    types.Type
	vt    types.Type
	base  bool
	saved bool
}

type sendReq struct {
	v     Value
	taken bool
}

type ChanObj struct {
	id          int
	buf         []Value
	cap         int
	closed      bool
	sendq       []*sendReq
	recvWaiters int
	et          types.Type
}

// ---------- strings ----------

type Str struct {
	s string
	b []*Term // non-nil => symbolic representation, len(b) is the length
}

func (s Str) Len() int {
	if s.b != nil {
		return len(s.b)
	}
	return len(s.s)
}

func (s Str) Conc() bool { return s.b == nil }

func (s Str) At(tc *TermCtx, i int) *Term {
	if s.b != nil {
		return s.b[i]
	}
	return tc.Const(8, uint64(s.s[i]))
}

func (s Str) Sub(i, j int) Str {
	if s.b != nil {
		return mkStr(s.b[i:j])
	}
	return Str{s: s.s[i:j]}
}

func mkStr(b []*Term) Str {
	conc := true
	for _, t := range b {
		if !t.IsConst() {
			conc = false
			break
		}
	}
	if conc {
		var sb strings.Builder
		sb.Grow(len(b))
		for _, t := range b {
			sb.WriteByte(byte(t.C))
		}
		return Str{s: sb.String()}
	}
	if len(b) == 0 {
		return Str{}
	}
	return Str{b: b}
}

func (s Str) Terms(tc *TermCtx) []*Term {
	if s.b != nil {
		return s.b
	}
	r := make([]*Term, len(s.s))
	for i := 0; i < len(s.s); i++ {
		r[i] = tc.Const(8, uint64(s.s[i]))
	}
	return r
}

func strConcat(tc *TermCtx, a, b Str) Str {
	if a.Conc() && b.Conc() {
		return Str{s: a.s + b.s}
	}
	if a.Len() == 0 {
		return b
	}
	if b.Len() == 0 {
		return a
	}
	r := make([]*Term, 0, a.Len()+b.Len())
	r = append(r, a.Terms(tc)...)
	r = append(r, b.Terms(tc)...)
	return Str{b: r}
}

// ---------- type layout ----------

type layout struct {
	cells    int
	fieldOff []int
	elem     int // cells per array element
}

func (e *Exec) layout(t types.Type) *layout {
	if l, ok := e.layouts[t]; ok {
		return l
	}
	l := &layout{}
	switch u := t.Underlying().(type) {
	case *types.Struct:
		l.fieldOff = make([]int, u.NumFields())
		for i := 0; i < u.NumFields(); i++ {
			l.fieldOff[i] = l.cells
			l.cells += e.layout(u.Field(i).Type()).cells
		}
	case *types.Array:
		l.elem = e.layout(u.Elem()).cells
		l.cells = l.elem * int(u.Len())
	case *types.Tuple:
		l.cells = 1
	default:
		l.cells = 1
	}
	e.layouts[t] = l
	return l
}

func (e *Exec) cellsOf(t types.Type) int { return e.layout(t).cells }

func isAgg(t types.Type) bool {
	switch t.Underlying().(type) {
	case *types.Struct, *types.Array:
		return true
	}
	return false
}

// scalar sort of a basic type
func basicSort(b *types.Basic) (Sort, bool, bool) { // sort, signed, ok
	switch b.Kind() {
	case types.Bool, types.UntypedBool:
		return SBool, false, true
	case types.Int8:
		return BV(8), true, true
	case types.Int16:
		return BV(16), true, true
	case types.Int32, types.UntypedRune:
		return BV(32), true, true
	case types.Int64, types.Int, types.UntypedInt:
		return BV(64), true, true
	case types.Uint8:
		return BV(8), false, true
	case types.Uint16:
		return BV(16), false, true
	case types.Uint32:
		return BV(32), false, true
	case types.Uint64, types.Uint, types.Uintptr:
		return BV(64), false, true
	case types.Float64, types.UntypedFloat, types.Float32:
		return SFP, true, true
	}
	return Sort{}, false, false
}

func intInfo(t types.Type) (w int, signed bool, ok bool) {
	b, isb := t.Underlying().(*types.Basic)
	if !isb {
		return 0, false, false
	}
	s, sg, ok := basicSort(b)
	if !ok || s.K != KBV {
		return 0, false, false
	}
	return s.W, sg, true
}

func isFloat(t types.Type) bool {
	b, ok := t.Underlying().(*types.Basic)
	return ok && b.Info()&types.IsFloat != 0
}

func isString(t types.Type) bool {
	b, ok := t.Underlying().(*types.Basic)
	return ok && b.Info()&types.IsString != 0
}

func isBool(t types.Type) bool {
	b, ok := t.Underlying().(*types.Basic)
	return ok && b.Info()&types.IsBoolean != 0
}

// zero value of a type (Agg for struct/array)
func (e *Exec) zero(t types.Type) Value {
	switch u := t.Underlying().(type) {
	case *types.Basic:
		if u.Kind() == types.UnsafePointer {
			return Ptr{}
		}
		if u.Info()&types.IsString != 0 {
			return Str{}
		}
		s, _, ok := basicSort(u)
		if !ok {
			if u.Kind() == types.UntypedNil {
				return Ptr{}
			}
			e.unsupported("zero of basic type " + u.String())
		}
		switch s.K {
		case KBool:
			return e.tc.False
		case KFP:
			return e.tc.FConst(0)
		default:
			return e.tc.Const(s.W, 0)
		}
	case *types.Pointer:
		return Ptr{}
	case *types.Slice:
		return Slice{}
	case *types.Interface:
		return Iface{}
	case *types.Map:
		return (*MapObj)(nil)
	case *types.Chan:
		return (*ChanObj)(nil)
	case *types.Signature:
		return FuncNil{}
	case *types.Struct, *types.Array:
		n := e.cellsOf(t)
		a := make(Agg, n)
		e.fillZero(a, t)
		return a
	case *types.Tuple:
		r := make(Tuple, u.Len())
		for i := range r {
			r[i] = e.zero(u.At(i).Type())
		}
		return r
	}
	e.unsupported("zero of type " + t.String())
	return nil
}

func (e *Exec) fillZero(dst []Value, t types.Type) {
	switch u := t.Underlying().(type) {
	case *types.Struct:
		l := e.layout(t)
		for i := 0; i < u.NumFields(); i++ {
			ft := u.Field(i).Type()
			n := e.cellsOf(ft)
			e.fillZero(dst[l.fieldOff[i]:l.fieldOff[i]+n], ft)
		}
	case *types.Array:
		n := int(u.Len())
		if n == 0 {
			return
		}
		ec := e.cellsOf(u.Elem())
		if ec == 1 && !isAgg(u.Elem()) {
			z := e.zero(u.Elem())
			for i := range dst {
				dst[i] = z
			}
			return
		}
		for i := 0; i < n; i++ {
			e.fillZero(dst[i*ec:(i+1)*ec], u.Elem())
		}
	default:
		dst[0] = e.zero(t)
	}
}

func (e *Exec) newObj(n int, desc string) *Obj {
	e.nobj++
	return &Obj{id: e.nobj, cells: make([]Value, n), desc: desc, base: e.inInit}
}

func (e *Exec) allocZero(t types.Type, desc string) *Obj {
	o := e.newObj(e.cellsOf(t), desc)
	e.fillZero(o.cells, t)
	return o
}

// ---------- memory access ----------

func (e *Exec) writeCell(o *Obj, i int, v Value) {
	if o.base && !e.inInit {
		e.undo = append(e.undo, undoRec{o: o, i: i, old: o.cells[i]})
	}
	o.cells[i] = v
}

func (e *Exec) nilCheck(p Ptr, what string) {
	if p.o == nil {
		e.goPanicRuntime("invalid memory address or nil pointer dereference (" + what + ")")
	}
}

// load a value of type t through p
func (e *Exec) load(p Ptr, t types.Type) Value {
	e.nilCheck(p, "load")
	n := e.cellsOf(t)
	if p.sym != nil {
		return e.loadSym(p, t, n)
	}
	if len(p.o.regions) > 0 {
		if r := p.o.regionAt(p.off); r != nil && !isAgg(t) {
			return e.tc.Select(r.arr, e.tc.Const(64, uint64(p.off-r.base)))
		}
	}
	if !isAgg(t) {
		if p.off >= len(p.o.cells) {
			e.unsupported(fmt.Sprintf("load out of object bounds (off %d, %d cells, %s)", p.off, len(p.o.cells), p.o.desc))
		}
		v := p.o.cells[p.off]
		if v == nil {
			e.unsupported("load of uninitialised cell in " + p.o.desc)
		}
		return v
	}
	a := make(Agg, n)
	if len(p.o.regions) > 0 {
		for i := 0; i < n; i++ {
			if r := p.o.regionAt(p.off + i); r != nil {
				a[i] = e.tc.Select(r.arr, e.tc.Const(64, uint64(p.off+i-r.base)))
			} else {
				a[i] = p.o.cells[p.off+i]
			}
		}
		return a
	}
	copy(a, p.o.cells[p.off:p.off+n])
	return a
}

func (e *Exec) store(p Ptr, t types.Type, v Value) {
	e.nilCheck(p, "store")
	if p.sym != nil {
		e.storeSym(p, t, v)
		return
	}
	if a, ok := v.(Agg); ok {
		for i, c := range a {
			e.storeCell(p.o, p.off+i, c)
		}
		return
	}
	e.storeCell(p.o, p.off, v)
}

func (e *Exec) storeCell(o *Obj, i int, v Value) {
	if len(o.regions) > 0 {
		if r := o.regionAt(i); r != nil {
			t, ok := v.(*Term)
			if !ok {
				e.unsupported("non-scalar store into array-mode region")
			}
			e.setRegionArr(o, r, e.tc.Store(r.arr, e.tc.Const(64, uint64(i-r.base)), t))
			return
		}
	}
	if i >= len(o.cells) {
		e.unsupported(fmt.Sprintf("store out of object bounds (off %d, %d cells, %s)", i, len(o.cells), o.desc))
	}
	e.writeCell(o, i, v)
}

func (o *Obj) regionAt(i int) *Region {
	for _, r := range o.regions {
		if i >= r.base && i < r.base+r.count {
			return r
		}
	}
	return nil
}

func (e *Exec) setRegionArr(o *Obj, r *Region, arr *Term) {
	if o.base && !e.inInit {
		e.undo = append(e.undo, undoRec{o: o, region: r, oldArr: r.arr})
	}
	r.arr = arr
}

const iteChainMax = 16

// enter array mode for the cells [base, base+count) of o (all scalars of one width)
func (e *Exec) makeRegion(o *Obj, base, count int) *Region {
	if r := o.regionAt(base); r != nil {
		if r.base == base && r.count == count {
			return r
		}
		e.unsupported("overlapping array-mode regions")
	}
	first, ok := o.cells[base].(*Term)
	if !ok || first.S.K != KBV {
		e.unsupported("symbolic index into a large non-integer array")
	}
	ew := first.S.W
	// most common value as default
	cnt := map[uint64]int{}
	for i := 0; i < count; i++ {
		t, ok := o.cells[base+i].(*Term)
		if !ok || t.S.K != KBV || t.S.W != ew {
			e.unsupported("symbolic index into a heterogeneous array")
		}
		if t.IsConst() {
			cnt[t.C]++
		}
	}
	var def uint64
	best := -1
	for i := 0; i < count; i++ { // deterministic choice
		t := o.cells[base+i].(*Term)
		if t.IsConst() && cnt[t.C] > best {
			best, def = cnt[t.C], t.C
		}
	}
	arr := e.tc.ConstArr(64, ew, def)
	for i := 0; i < count; i++ {
		t := o.cells[base+i].(*Term)
		if t.IsConst() && t.C == def {
			continue
		}
		arr = e.tc.Store(arr, e.tc.Const(64, uint64(i)), t)
	}
	r := &Region{base: base, count: count, ew: ew, arr: arr}
	if o.base && !e.inInit {
		e.undo = append(e.undo, undoRec{o: o, delRegion: r})
	}
	o.regions = append(o.regions, r)
	e.stats.Regions++
	return r
}

// balanced multiplexer over constant (or arbitrary scalar) cells, selected by the bits of idx
func (e *Exec) muxTree(cells []Value, idx *Term, lo, n int, bit int) *Term {
	tc := e.tc
	if n == 1 {
		return cells[lo].(*Term)
	}
	// split at the highest power of two below n
	for bit >= 0 && (1<<uint(bit)) >= n {
		bit--
	}
	half := 1 << uint(bit)
	low := e.muxTree(cells, idx, lo, half, bit-1)
	high := e.muxTree(cells, idx, lo+half, n-half, bit-1)
	if low == high {
		return low
	}
	b := tc.Cmp(OpEq, tc.Extract(idx, bit, bit), tc.Const(1, 1))
	return tc.Ite(b, high, low)
}

func (e *Exec) allScalar(o *Obj, base, count int) (allConst bool, ok bool) {
	allConst = true
	for i := 0; i < count; i++ {
		t, isT := o.cells[base+i].(*Term)
		if !isT {
			return false, false
		}
		if !t.IsConst() {
			allConst = false
		}
	}
	return allConst, true
}

const romMax = 4096

func (e *Exec) loadSym(p Ptr, t types.Type, n int) Value {
	s := p.sym
	tc := e.tc
	if isAgg(t) || s.stride != 1 {
		i := int(e.concretize(s.idx, "symbolic index of aggregate element"))
		return e.load(Ptr{o: p.o, off: p.off + i*s.stride}, t)
	}
	if r := p.o.regionAt(p.off); r != nil {
		if p.off != r.base {
			return tc.Select(r.arr, tc.Bin(OpAdd, s.idx, tc.Const(64, uint64(p.off-r.base))))
		}
		return tc.Select(r.arr, s.idx)
	}
	// 1. small evident value set: ite over just those cells
	if vals := tc.possibleValues(s.idx, 2); vals != nil {
		var res *Term
		for _, v := range vals {
			if v >= uint64(s.count) {
				continue // excluded by the bounds obligation
			}
			c, ok := p.o.cells[p.off+int(v)].(*Term)
			if !ok {
				res = nil
				break
			}
			if res == nil {
				res = c
			} else {
				res = tc.Ite(tc.Cmp(OpEq, s.idx, tc.Const(64, v)), c, res)
			}
		}
		if res != nil {
			return res
		}
	}
	allConst, scalar := e.allScalar(p.o, p.off, s.count)
	if scalar && (s.count <= iteChainMax || (allConst && p.o.base && s.count <= romMax)) {
		// 2. multiplexer tree (ROM encoding for constant tables)
		return e.muxTree(p.o.cells[p.off:], s.idx, 0, s.count, 62)
	}
	if scalar && e.arrayMode {
		r := e.makeRegion(p.o, p.off, s.count)
		return tc.Select(r.arr, s.idx)
	}
	// 3. fork over the feasible index values
	j := int(e.concretize(s.idx, "symbolic index into large mutable array"))
	return e.load(Ptr{o: p.o, off: p.off + j}, t)
}

func (e *Exec) storeSym(p Ptr, t types.Type, v Value) {
	s := p.sym
	tv, scalar := v.(*Term)
	if isAgg(t) || s.stride != 1 || !scalar {
		i := int(e.concretize(s.idx, "symbolic index of aggregate element (store)"))
		e.store(Ptr{o: p.o, off: p.off + i*s.stride}, t, v)
		return
	}
	if r := p.o.regionAt(p.off); r != nil || (e.arrayMode && s.count > iteChainMax) {
		if r == nil {
			r = e.makeRegion(p.o, p.off, s.count)
		}
		idx := s.idx
		if p.off != r.base {
			idx = e.tc.Bin(OpAdd, idx, e.tc.Const(64, uint64(p.off-r.base)))
		}
		e.setRegionArr(p.o, r, e.tc.Store(r.arr, idx, tv))
		return
	}
	_, allScalar := e.allScalar(p.o, p.off, s.count)
	if s.count <= iteChainMax && allScalar {
		for i := 0; i < s.count; i++ {
			old := p.o.cells[p.off+i].(*Term)
			nv := e.tc.Ite(e.tc.Cmp(OpEq, s.idx, e.tc.Const(64, uint64(i))), tv, old)
			e.writeCell(p.o, p.off+i, nv)
		}
		return
	}
	if vals := e.tc.possibleValues(s.idx, 2); vals != nil && allScalar {
		for _, x := range vals {
			if x >= uint64(s.count) {
				continue
			}
			i := int(x)
			old := p.o.cells[p.off+i].(*Term)
			nv := e.tc.Ite(e.tc.Cmp(OpEq, s.idx, e.tc.Const(64, x)), tv, old)
			e.writeCell(p.o, p.off+i, nv)
		}
		return
	}
	j := int(e.concretize(s.idx, "symbolic index into large array (store)"))
	e.store(Ptr{o: p.o, off: p.off + j}, t, v)
}

// ---------- helpers ----------

func (e *Exec) boolTerm(v Value) *Term {
	t, ok := v.(*Term)
	if !ok || t.S.K != KBool {
		e.unsupported(fmt.Sprintf("expected bool, got %T", v))
	}
	return t
}

func (e *Exec) intTerm(v Value) *Term {
	t, ok := v.(*Term)
	if !ok || t.S.K != KBV {
		e.unsupported(fmt.Sprintf("expected integer, got %T", v))
	}
	return t
}

// concrete int of a value that must be concrete (forks over values otherwise)
func (e *Exec) concInt(v Value, what string) int {
	t := e.intTerm(v)
	if t.IsConst() {
		return int(sx(t.C, t.S.W))
	}
	return int(sx(e.concretize(t, what), t.S.W))
}

func (e *Exec) mkInt(t types.Type, v int64) *Term {
	w, _, ok := intInfo(t)
	if !ok {
		e.unsupported("mkInt of " + t.String())
	}
	return e.tc.Const(w, uint64(v))
}

func (e *Exec) goString(v Value) string {
	s, ok := v.(Str)
	if !ok {
		e.unsupported(fmt.Sprintf("expected string, got %T", v))
	}
	if !s.Conc() {
		// concretise byte by byte
		var sb strings.Builder
		for _, b := range s.b {
			sb.WriteByte(byte(e.concretize(b, "symbolic string must be concrete here")))
		}
		return sb.String()
	}
	return s.s
}

// bytes of a slice as terms
func (e *Exec) sliceBytes(s Slice) []*Term {
	r := make([]*Term, s.len)
	for i := 0; i < s.len; i++ {
		r[i] = e.intTerm(e.load(Ptr{o: s.o, off: s.off + i}, types.Typ[types.Uint8]))
	}
	return r
}

func (e *Exec) newByteSlice(b []*Term) Slice {
	o := e.newObj(len(b), "[]byte")
	for i, t := range b {
		o.cells[i] = t
	}
	return Slice{o: o, off: 0, len: len(b), cap: len(b)}
}

func (e *Exec) newByteSliceFromString(s Str) Slice {
	return e.newByteSlice(s.Terms(e.tc))
}

func describe(v Value) string {
	switch x := v.(type) {
	case *Term:
		if x.IsConst() {
			if x.S.K == KBV {
				return fmt.Sprintf("%d", sx(x.C, x.S.W))
			}
			return x.ref()
		}
		return "<sym>"
	case Str:
		if x.Conc() {
			return fmt.Sprintf("%q", x.s)
		}
		return fmt.Sprintf("<symstr len %d>", x.Len())
	case Iface:
		if x.t == nil {
			return "nil"
		}
		return fmt.Sprintf("%s(%s)", x.t, describe(x.v))
	}
	return fmt.Sprintf("%T", v)
}
