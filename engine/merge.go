package main

// If-conversion of side-effect-free triangles and diamonds (DESIGN §2.5,
// "state merging at Phi"): instead of forking on a symbolic condition, both
// arms are evaluated and the join block's phis become ite terms.

import (
	"go/token"
	"go/types"

	"golang.org/x/tools/go/ssa"
)

type mergeInfo struct {
	ok         bool
	tBlk, fBlk *ssa.BasicBlock // nil when that arm is empty (edge straight to the join)
	join       *ssa.BasicBlock
}

func pureInstr(in ssa.Instruction) bool {
	switch x := in.(type) {
	case *ssa.DebugRef:
		return true
	case *ssa.BinOp:
		if _, _, ok := intInfo(x.X.Type()); !ok && !isBool(x.X.Type()) {
			return false
		}
		switch x.Op {
		case token.ADD, token.SUB, token.MUL, token.AND, token.OR, token.XOR, token.AND_NOT,
			token.EQL, token.NEQ, token.LSS, token.LEQ, token.GTR, token.GEQ:
			return true
		case token.SHL, token.SHR:
			if _, signed, ok := intInfo(x.Y.Type()); ok && !signed {
				return true
			}
			if _, isConst := x.Y.(*ssa.Const); isConst {
				return true
			}
		}
		return false
	case *ssa.UnOp:
		switch x.Op {
		case token.NOT, token.SUB, token.XOR:
			_, _, ok := intInfo(x.X.Type())
			return ok || isBool(x.X.Type())
		}
		return false
	case *ssa.Convert:
		_, _, ok1 := intInfo(x.X.Type())
		_, _, ok2 := intInfo(x.Type())
		return ok1 && ok2
	case *ssa.ChangeType:
		_, _, ok := intInfo(x.Type())
		return ok
	}
	return false
}

func simpleArm(b, from *ssa.BasicBlock) (*ssa.BasicBlock, bool) {
	if len(b.Preds) != 1 || b.Preds[0] != from || len(b.Succs) != 1 || len(b.Instrs) > 10 {
		return nil, false
	}
	for i, in := range b.Instrs {
		if i == len(b.Instrs)-1 {
			if _, ok := in.(*ssa.Jump); !ok {
				return nil, false
			}
			break
		}
		if !pureInstr(in) {
			return nil, false
		}
	}
	return b.Succs[0], true
}

func (p *Program) mergeable(b *ssa.BasicBlock) *mergeInfo {
	p.mu.Lock()
	defer p.mu.Unlock()
	if m, ok := p.merges[b]; ok {
		return m
	}
	m := &mergeInfo{}
	p.merges[b] = m
	if len(b.Succs) != 2 {
		return m
	}
	t, f := b.Succs[0], b.Succs[1]
	if t == f {
		return m
	}
	tj, tok := simpleArm(t, b)
	fj, fok := simpleArm(f, b)
	switch {
	case tok && fok && tj == fj:
		m.ok, m.tBlk, m.fBlk, m.join = true, t, f, tj
	case tok && tj == f:
		m.ok, m.tBlk, m.fBlk, m.join = true, t, nil, f
	case fok && fj == t:
		m.ok, m.tBlk, m.fBlk, m.join = true, nil, f, t
	}
	if m.ok {
		// the join must start with phis only fed by these edges (any number of other preds is fine)
		for _, in := range m.join.Instrs {
			phi, ok := in.(*ssa.Phi)
			if !ok {
				break
			}
			if _, _, isInt := intInfo(phi.Type()); !isInt && !isBool(phi.Type()) {
				if b, isB := phi.Type().Underlying().(*types.Basic); !isB || b.Info()&types.IsFloat == 0 {
					m.ok = false
				}
			}
		}
	}
	return m
}

// tryMerge executes an If with a symbolic condition by if-conversion; false = not applicable
func (e *Exec) tryMerge(fr *frame, c *Term) bool {
	m := e.prog.mergeable(fr.block)
	if !m.ok {
		return false
	}
	b := fr.block
	runArm := func(arm *ssa.BasicBlock) {
		if arm == nil {
			return
		}
		for _, in := range arm.Instrs[:len(arm.Instrs)-1] {
			e.visit(fr, in)
		}
		e.steps += int64(len(arm.Instrs))
	}
	runArm(m.tBlk)
	runArm(m.fBlk)
	predOf := func(arm *ssa.BasicBlock) *ssa.BasicBlock {
		if arm == nil {
			return b
		}
		return arm
	}
	tPred, fPred := predOf(m.tBlk), predOf(m.fBlk)
	type pv struct {
		phi *ssa.Phi
		v   *Term
	}
	var vals []pv
	for _, in := range m.join.Instrs {
		phi, ok := in.(*ssa.Phi)
		if !ok {
			break
		}
		var vt, vf Value
		for i, pred := range m.join.Preds {
			if pred == tPred {
				vt = e.get(fr, phi.Edges[i])
			}
			if pred == fPred {
				vf = e.get(fr, phi.Edges[i])
			}
		}
		tt, ok1 := vt.(*Term)
		tf, ok2 := vf.(*Term)
		if !ok1 || !ok2 || tt.S != tf.S {
			return false
		}
		vals = append(vals, pv{phi, e.tc.Ite(c, tt, tf)})
	}
	for _, x := range vals {
		e.set(fr, x.phi, x.v)
	}
	fr.prev, fr.block = tPred, m.join
	fr.mergedPhis = true
	e.stats.Merges++
	return true
}
