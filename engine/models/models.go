// Package zz_verifmodels holds pure-Go source models of functions that are
// implemented in assembly or inside the runtime.  The file is injected into
// the program under analysis through the go/packages overlay and executed
// symbolically like any other code.
package zz_verifmodels

import (
	"io/fs"
	"time"
	"unicode/utf8"
)

type RuntimeError string

func (e RuntimeError) Error() string { return "runtime error: " + string(e) }
func (e RuntimeError) RuntimeError() {}

type PlainError string

func (e PlainError) Error() string { return string(e) }

func IndexByte(b []byte, c byte) int {
	for i := 0; i < len(b); i++ {
		if b[i] == c {
			return i
		}
	}
	return -1
}

func IndexByteString(s string, c byte) int {
	for i := 0; i < len(s); i++ {
		if s[i] == c {
			return i
		}
	}
	return -1
}

func LastIndexByte(b []byte, c byte) int {
	for i := len(b) - 1; i >= 0; i-- {
		if b[i] == c {
			return i
		}
	}
	return -1
}

func Count(b []byte, c byte) int {
	n := 0
	for i := 0; i < len(b); i++ {
		if b[i] == c {
			n++
		}
	}
	return n
}

func CountString(s string, c byte) int {
	n := 0
	for i := 0; i < len(s); i++ {
		if s[i] == c {
			n++
		}
	}
	return n
}

func Index(a, b []byte) int {
	n := len(b)
	for i := 0; i+n <= len(a); i++ {
		if string(a[i:i+n]) == string(b) {
			return i
		}
	}
	return -1
}

func IndexString(a, b string) int {
	n := len(b)
	for i := 0; i+n <= len(a); i++ {
		if a[i:i+n] == b {
			return i
		}
	}
	return -1
}

func Equal(a, b []byte) bool { return string(a) == string(b) }

func Compare(a, b []byte) int {
	n := len(a)
	if len(b) < n {
		n = len(b)
	}
	for i := 0; i < n; i++ {
		if a[i] != b[i] {
			if a[i] < b[i] {
				return -1
			}
			return 1
		}
	}
	if len(a) < len(b) {
		return -1
	}
	if len(a) > len(b) {
		return 1
	}
	return 0
}

func CompareString(a, b string) int {
	n := len(a)
	if len(b) < n {
		n = len(b)
	}
	for i := 0; i < n; i++ {
		if a[i] != b[i] {
			if a[i] < b[i] {
				return -1
			}
			return 1
		}
	}
	if len(a) < len(b) {
		return -1
	}
	if len(a) > len(b) {
		return 1
	}
	return 0
}

func DecodeRuneInString(s string) (rune, int) { return utf8.DecodeRuneInString(s) }

func RuneToString(r rune) string {
	var buf [4]byte
	if r < 0 || r > utf8.MaxRune || (r >= 0xD800 && r <= 0xDFFF) {
		r = utf8.RuneError
	}
	n := utf8.EncodeRune(buf[:], r)
	return string(buf[:n])
}

func RunesToString(rs []rune) string {
	var b []byte
	for _, r := range rs {
		b = utf8.AppendRune(b, r)
	}
	return string(b)
}

func StringToRunes(s string) []rune {
	var rs []rune
	for len(s) > 0 {
		r, n := utf8.DecodeRuneInString(s)
		rs = append(rs, r)
		s = s[n:]
	}
	return rs
}

// decimal formatting of a non-negative integer (used by the fmt model when the
// value is symbolic): digit count is decided by comparisons, digits by
// division by constants.
func FormatUint(v uint64, base int) string {
	if v == 0 {
		return "0"
	}
	const digits = "0123456789abcdef"
	var buf [64]byte
	i := len(buf)
	b := uint64(base)
	for v > 0 {
		i--
		buf[i] = digits[v%b]
		v /= b
	}
	return string(buf[i:])
}

// ---------- virtual file system value types ----------

type VFSError struct {
	Op, Path, Msg string
	NotExist      bool
	Exist         bool
}

func (e *VFSError) Unwrap() error {
	switch {
	case e.NotExist:
		return fs.ErrNotExist
	case e.Exist:
		return fs.ErrExist
	}
	return nil
}

func (e *VFSError) Error() string { return e.Op + " " + e.Path + ": " + e.Msg }

// VFSCrash is the panic value with which the virtual file system interrupts
// the operation at the armed crash point ("the process dies here").
type VFSCrash struct{ Op string }

type VFileInfo struct {
	FName string
	FDir  bool
	FSize int64
}

func (i VFileInfo) Name() string { return i.FName }
func (i VFileInfo) Size() int64  { return i.FSize }
func (i VFileInfo) IsDir() bool  { return i.FDir }
func (i VFileInfo) Sys() any     { return nil }
func (i VFileInfo) Mode() fs.FileMode {
	if i.FDir {
		return fs.ModeDir | 0755
	}
	return 0644
}
func (i VFileInfo) ModTime() time.Time { return time.Time{} }

func (i VFileInfo) Type() fs.FileMode          { return i.Mode().Type() }
func (i VFileInfo) Info() (fs.FileInfo, error) { return i, nil }

var _ fs.FileInfo = VFileInfo{}
var _ fs.DirEntry = VFileInfo{}

// CRC32Update replaces hash/crc32.update: bitwise and branch-free, so that a
// checksum over symbolic bytes is one term instead of a 256-way fork per table
// lookup.  The (reflected) polynomial is entry 128 of the table.
func CRC32Update(crc uint32, tab *[256]uint32, p []byte) uint32 {
	poly := tab[128]
	crc = ^crc
	for _, b := range p {
		crc ^= uint32(b)
		for i := 0; i < 8; i++ {
			crc = (crc >> 1) ^ (poly & -(crc & 1))
		}
	}
	return ^crc
}
