package main

// encoding/binary (type-directed) and package time (virtual clock) models.

import (
	"fmt"
	"go/types"

	"golang.org/x/tools/go/ssa"
)

func (e *Exec) fixedSize(t types.Type) int {
	switch u := t.Underlying().(type) {
	case *types.Basic:
		s, _, ok := basicSort(u)
		if !ok {
			return -1
		}
		switch s.K {
		case KBool:
			return 1
		case KBV:
			if u.Kind() == types.Int || u.Kind() == types.Uint || u.Kind() == types.Uintptr {
				return -1
			}
			return s.W / 8
		case KFP:
			return 8
		}
	case *types.Array:
		n := e.fixedSize(u.Elem())
		if n < 0 {
			return -1
		}
		return n * int(u.Len())
	case *types.Struct:
		sum := 0
		for i := 0; i < u.NumFields(); i++ {
			n := e.fixedSize(u.Field(i).Type())
			if n < 0 {
				return -1
			}
			sum += n
		}
		return sum
	}
	return -1
}

func (e *Exec) binDecode(p Ptr, t types.Type, b []*Term, pos *int, little bool, blank bool) {
	tc := e.tc
	switch u := t.Underlying().(type) {
	case *types.Basic:
		s, _, _ := basicSort(u)
		n := e.fixedSize(t)
		bs := b[*pos : *pos+n]
		*pos += n
		if blank {
			return
		}
		switch s.K {
		case KBool:
			e.store(p, t, tc.BNot(tc.Cmp(OpEq, bs[0], tc.Const(8, 0))))
		case KBV, KFP:
			var v *Term
			for i := 0; i < n; i++ {
				var x *Term
				if little {
					x = bs[n-1-i]
				} else {
					x = bs[i]
				}
				if v == nil {
					v = x
				} else {
					v = tc.Concat(v, x)
				}
			}
			if s.K == KFP {
				v = tc.FFromBits(v)
			}
			e.store(p, t, v)
		}
	case *types.Array:
		ec := e.cellsOf(u.Elem())
		for i := 0; i < int(u.Len()); i++ {
			e.binDecode(Ptr{o: p.o, off: p.off + i*ec}, u.Elem(), b, pos, little, blank)
		}
	case *types.Struct:
		l := e.layout(t)
		for i := 0; i < u.NumFields(); i++ {
			e.binDecode(Ptr{o: p.o, off: p.off + l.fieldOff[i]}, u.Field(i).Type(), b, pos, little, blank || u.Field(i).Name() == "_")
		}
	}
}

func (e *Exec) binEncode(v Value, t types.Type, out *[]*Term, little bool, blank bool) {
	tc := e.tc
	switch u := t.Underlying().(type) {
	case *types.Basic:
		s, _, _ := basicSort(u)
		n := e.fixedSize(t)
		if blank {
			for i := 0; i < n; i++ {
				*out = append(*out, tc.Const(8, 0))
			}
			return
		}
		switch s.K {
		case KBool:
			*out = append(*out, tc.Ite(e.boolTerm(v), tc.Const(8, 1), tc.Const(8, 0)))
		case KBV:
			x := e.intTerm(v)
			for i := 0; i < n; i++ {
				k := i
				if !little {
					k = n - 1 - i
				}
				*out = append(*out, tc.Extract(x, 8*k+7, 8*k))
			}
		default:
			e.unsupported("binary.Write of float")
		}
	case *types.Array:
		a := v.(Agg)
		ec := e.cellsOf(u.Elem())
		for i := 0; i < int(u.Len()); i++ {
			var ev Value
			if isAgg(u.Elem()) {
				ev = a[i*ec : (i+1)*ec]
			} else {
				ev = a[i]
			}
			e.binEncode(ev, u.Elem(), out, little, blank)
		}
	case *types.Struct:
		a := v.(Agg)
		l := e.layout(t)
		for i := 0; i < u.NumFields(); i++ {
			ft := u.Field(i).Type()
			var fv Value
			if isAgg(ft) {
				fv = a[l.fieldOff[i] : l.fieldOff[i]+e.cellsOf(ft)]
			} else {
				fv = a[l.fieldOff[i]]
			}
			e.binEncode(fv, ft, out, little, blank || u.Field(i).Name() == "_")
		}
	}
}

func (e *Exec) isLittle(order Iface) bool {
	if order.t == nil {
		e.goPanicRuntime("nil ByteOrder")
	}
	switch order.t.String() {
	case "encoding/binary.littleEndian":
		return true
	case "encoding/binary.bigEndian":
		return false
	}
	e.unsupported("byte order " + order.t.String())
	return false
}

func init() {
	reg("encoding/binary.Read", func(e *Exec, args []Value, fn *ssa.Function) Value {
		r := args[0].(Iface)
		little := e.isLittle(args[1].(Iface))
		data := args[2].(Iface)
		var target Ptr
		var tt types.Type
		count := 1
		switch dt := data.t.Underlying().(type) {
		case *types.Pointer:
			target, tt = data.v.(Ptr), dt.Elem()
		case *types.Slice:
			s := data.v.(Slice)
			target, tt, count = Ptr{o: s.o, off: s.off}, dt.Elem(), s.len
		default:
			return e.mkErrorS("binary.Read: invalid type " + data.t.String())
		}
		sz := e.fixedSize(tt)
		if sz < 0 {
			return e.mkErrorS("binary.Read: invalid type " + data.t.String())
		}
		buf := e.makeSlice(types.Typ[types.Uint8], e.tc.Const(64, uint64(sz*count)), e.tc.Const(64, uint64(sz*count))).(Slice)
		readFull := e.prog.ssa.ImportedPackage("io").Func("ReadFull")
		res := e.callSSA(readFull, []Value{r, buf}, nil).(Tuple)
		if err := res[1].(Iface); err.t != nil {
			return err
		}
		b := e.sliceBytes(buf)
		pos := 0
		ec := e.cellsOf(tt)
		for i := 0; i < count; i++ {
			e.binDecode(Ptr{o: target.o, off: target.off + i*ec}, tt, b, &pos, little, false)
		}
		return Iface{}
	})
	reg("encoding/binary.Write", func(e *Exec, args []Value, fn *ssa.Function) Value {
		w := args[0].(Iface)
		little := e.isLittle(args[1].(Iface))
		data := args[2].(Iface)
		var out []*Term
		if data.t == nil {
			return e.mkErrorS("binary.Write: some values are not fixed-sized in type <nil>")
		}
		switch dt := data.t.Underlying().(type) {
		case *types.Pointer:
			if e.fixedSize(dt.Elem()) < 0 {
				return e.mkErrorS("binary.Write: some values are not fixed-sized in type " + data.t.String())
			}
			e.binEncode(e.load(data.v.(Ptr), dt.Elem()), dt.Elem(), &out, little, false)
		case *types.Slice:
			if e.fixedSize(dt.Elem()) < 0 {
				return e.mkErrorS("binary.Write: some values are not fixed-sized in type " + data.t.String())
			}
			s := data.v.(Slice)
			ec := e.cellsOf(dt.Elem())
			for i := 0; i < s.len; i++ {
				e.binEncode(e.load(Ptr{o: s.o, off: s.off + i*ec}, dt.Elem()), dt.Elem(), &out, little, false)
			}
		default:
			if e.fixedSize(data.t) < 0 {
				return e.mkErrorS("binary.Write: some values are not fixed-sized in type " + data.t.String())
			}
			e.binEncode(data.v, data.t, &out, little, false)
		}
		res := e.invoke(w, "Write", e.newByteSlice(out)).(Tuple)
		return res[1]
	})
	reg("encoding/binary.Size", func(e *Exec, args []Value, fn *ssa.Function) Value {
		data := args[0].(Iface)
		t := data.t
		if p, ok := t.Underlying().(*types.Pointer); ok {
			t = p.Elem()
		}
		if s, ok := t.Underlying().(*types.Slice); ok {
			n := e.fixedSize(s.Elem())
			if n < 0 {
				return e.tc.Const(64, ^uint64(0))
			}
			return e.tc.Const(64, uint64(n*data.v.(Slice).len))
		}
		return e.tc.Const(64, uint64(int64(e.fixedSize(t))))
	})

	// ---------- time ----------
	reg("time.Now", func(e *Exec, args []Value, fn *ssa.Function) Value { return e.timeValue(e.now) })
	reg("time.now", func(e *Exec, args []Value, fn *ssa.Function) Value {
		return Tuple{e.tc.Const(64, uint64(e.now/1e9)), e.tc.Const(32, uint64(e.now%1e9)), e.tc.Const(64, uint64(e.now))}
	})
	reg("time.runtimeNano", func(e *Exec, args []Value, fn *ssa.Function) Value { return e.tc.Const(64, uint64(e.now)) })
	reg("time.initLocal", nop)
	reg("time.Sleep", func(e *Exec, args []Value, fn *ssa.Function) Value {
		d := int64(e.concInt(args[0], "sleep duration"))
		if d <= 0 {
			e.yield()
			return nil
		}
		fired := false
		e.addTimer(d, 0, func() { fired = true })
		e.block("time.Sleep", func() bool { return fired })
		return nil
	})
	reg("time.After", func(e *Exec, args []Value, fn *ssa.Function) Value {
		d := int64(e.concInt(args[0], "timer duration"))
		ch := e.newTimeChan()
		e.addTimer(d, 0, func() { e.timeSend(ch) })
		return ch
	})
	reg("time.Tick", func(e *Exec, args []Value, fn *ssa.Function) Value {
		d := int64(e.concInt(args[0], "ticker period"))
		ch := e.newTimeChan()
		e.addTimer(d, d, func() { e.timeSend(ch) })
		return ch
	})
	reg("time.NewTimer", func(e *Exec, args []Value, fn *ssa.Function) Value {
		d := int64(e.concInt(args[0], "timer duration"))
		tt := e.pkgType("time", "Timer")
		o := e.allocZero(tt, "time.Timer")
		ch := e.newTimeChan()
		cp, ct := e.fieldPtr(Ptr{o: o}, tt, "C")
		e.store(cp, ct, ch)
		vt := e.addTimer(d, 0, func() { e.timeSend(ch) })
		vt.ch = ch
		e.timerObjs[o] = vt
		return Ptr{o: o}
	})
	reg("time.NewTicker", func(e *Exec, args []Value, fn *ssa.Function) Value {
		d := int64(e.concInt(args[0], "ticker period"))
		if d <= 0 {
			e.goPanicValue(e.mkErrorS("non-positive interval for NewTicker"))
		}
		tt := e.pkgType("time", "Ticker")
		o := e.allocZero(tt, "time.Ticker")
		ch := e.newTimeChan()
		cp, ct := e.fieldPtr(Ptr{o: o}, tt, "C")
		e.store(cp, ct, ch)
		vt := e.addTimer(d, d, func() { e.timeSend(ch) })
		vt.ch = ch
		e.timerObjs[o] = vt
		return Ptr{o: o}
	})
	reg("time.AfterFunc", func(e *Exec, args []Value, fn *ssa.Function) Value {
		d := int64(e.concInt(args[0], "timer duration"))
		f := args[1]
		tt := e.pkgType("time", "Timer")
		o := e.allocZero(tt, "time.Timer")
		vt := e.addTimer(d, 0, func() { e.spawn(f, nil) })
		e.timerObjs[o] = vt
		return Ptr{o: o}
	})
	stop := func(e *Exec, args []Value, fn *ssa.Function) Value {
		p := args[0].(Ptr)
		e.nilCheck(p, "Timer.Stop")
		vt := e.timerObjs[p.o]
		if vt == nil {
			return e.tc.False
		}
		was := vt.active
		vt.active = false
		if fn.Signature.Results().Len() == 0 {
			return nil
		}
		return e.tc.Bool(was)
	}
	reg("(*time.Timer).Stop", stop)
	reg("(*time.Ticker).Stop", stop)
	reg("(*time.Timer).Reset", func(e *Exec, args []Value, fn *ssa.Function) Value {
		p := args[0].(Ptr)
		e.nilCheck(p, "Timer.Reset")
		d := int64(e.concInt(args[1], "timer duration"))
		vt := e.timerObjs[p.o]
		if vt == nil {
			e.unsupported("Reset of unknown timer")
		}
		was := vt.active
		vt.active = false
		nt := e.addTimer(d, 0, vt.fire)
		nt.ch = vt.ch
		e.timerObjs[p.o] = nt
		return e.tc.Bool(was)
	})
	reg("(*time.Ticker).Reset", func(e *Exec, args []Value, fn *ssa.Function) Value {
		p := args[0].(Ptr)
		d := int64(e.concInt(args[1], "ticker period"))
		vt := e.timerObjs[p.o]
		if vt == nil {
			e.unsupported("Reset of unknown ticker")
		}
		vt.active = false
		nt := e.addTimer(d, d, vt.fire)
		nt.ch = vt.ch
		e.timerObjs[p.o] = nt
		return nil
	})
}

const unixToInternal int64 = (1969*365 + 1969/4 - 1969/100 + 1969/400) * 86400

func (e *Exec) timeValue(ns int64) Value {
	// time.Time{wall: nsec (no monotonic reading), ext: seconds since year 1, loc: nil (UTC)}
	tt := e.pkgType("time", "Time")
	a := e.zero(tt).(Agg)
	st := tt.Underlying().(*types.Struct)
	l := e.layout(tt)
	for i := 0; i < st.NumFields(); i++ {
		switch st.Field(i).Name() {
		case "wall":
			a[l.fieldOff[i]] = e.tc.Const(64, uint64(ns%1e9))
		case "ext":
			a[l.fieldOff[i]] = e.tc.Const(64, uint64(ns/1e9+unixToInternal))
		}
	}
	return a
}

func (e *Exec) newTimeChan() *ChanObj {
	e.nchan++
	return &ChanObj{id: e.nchan, cap: 1, et: e.pkgType("time", "Time")}
}

func (e *Exec) timeSend(ch *ChanObj) {
	if len(ch.buf) < ch.cap {
		ch.buf = append(ch.buf, e.timeValue(e.now))
	}
}

var _ = fmt.Sprint
