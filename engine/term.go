package main

// Hash-consed SMT terms with constant folding, a small set of sound
// rewrites (DESIGN §2.3) and a concrete evaluator under a model.

import (
	"fmt"
	"math"
	"math/bits"
	"strings"
)

type Kind uint8

const (
	KBool Kind = iota
	KBV
	KFP  // float64
	KArr // (Array (_ BitVec W) (_ BitVec EW))
	KInt // mathematical integer (decimal witnesses)
)

type Sort struct {
	K  Kind
	W  int // BV width / array index width
	EW int // array element width
}

var (
	SBool = Sort{K: KBool}
	SFP   = Sort{K: KFP}
	SInt  = Sort{K: KInt}
)

func BV(w int) Sort { return Sort{K: KBV, W: w} }

func (s Sort) SMT() string {
	switch s.K {
	case KBool:
		return "Bool"
	case KBV:
		return fmt.Sprintf("(_ BitVec %d)", s.W)
	case KFP:
		return "(_ FloatingPoint 11 53)"
	case KArr:
		return fmt.Sprintf("(Array (_ BitVec %d) (_ BitVec %d))", s.W, s.EW)
	case KInt:
		return "Int"
	}
	panic("sort")
}

type Op uint8

const (
	OpConst Op = iota
	OpVar
	OpAdd
	OpSub
	OpMul
	OpUDiv
	OpURem
	OpSDiv
	OpSRem
	OpAnd
	OpOr
	OpXor
	OpNot
	OpNeg
	OpShl
	OpLShr
	OpAShr
	OpConcat
	OpExtract // C = hi<<8 | lo
	OpZExt    // to sort width
	OpSExt
	OpEq
	OpUlt
	OpUle
	OpSlt
	OpSle
	OpIte
	OpBAnd
	OpBOr
	OpBNot
	OpSelect
	OpStore
	OpConstArr
	OpFAdd
	OpFSub
	OpFMul
	OpFDiv
	OpFNeg
	OpFAbs
	OpFEq
	OpFLt
	OpFLe
	OpFIsNaN
	OpFRound // C: 0 RNA (math.Round) 1 RTN (Floor) 2 RTP (Ceil) 3 RTZ (Trunc) 4 RNE (RoundToEven)
	OpSToFP  // signed bv -> fp (RNE)
	OpUToFP  // unsigned bv -> fp (RNE)
	OpFToSBV // fp -> signed bv RTZ (width in sort)
	OpFToUBV
	OpFFromBits // bv64 -> fp (reinterpret)
	OpUF        // uninterpreted function Name(args)
	OpBV2Nat    // bv -> Int
	OpIAdd
	OpIMul
	OpILe
	OpIEq
)

var opSMT = map[Op]string{
	OpAdd: "bvadd", OpSub: "bvsub", OpMul: "bvmul", OpUDiv: "bvudiv", OpURem: "bvurem",
	OpSDiv: "bvsdiv", OpSRem: "bvsrem", OpAnd: "bvand", OpOr: "bvor", OpXor: "bvxor",
	OpNot: "bvnot", OpNeg: "bvneg", OpShl: "bvshl", OpLShr: "bvlshr", OpAShr: "bvashr",
	OpConcat: "concat", OpEq: "=", OpUlt: "bvult", OpUle: "bvule", OpSlt: "bvslt", OpSle: "bvsle",
	OpIte: "ite", OpBAnd: "and", OpBOr: "or", OpBNot: "not", OpSelect: "select", OpStore: "store",
	OpFAdd: "fp.add RNE", OpFSub: "fp.sub RNE", OpFMul: "fp.mul RNE", OpFDiv: "fp.div RNE",
	OpFNeg: "fp.neg", OpFAbs: "fp.abs", OpFEq: "fp.eq", OpFLt: "fp.lt", OpFLe: "fp.leq", OpFIsNaN: "fp.isNaN",
	OpBV2Nat: "bv2nat", OpIAdd: "+", OpIMul: "*", OpILe: "<=", OpIEq: "=",
}

type Term struct {
	ID   int
	Op   Op
	S    Sort
	A    []*Term
	C    uint64
	Name string
	umax uint64 // unsigned upper bound (BV only)
	vs   bitset // free variables (indices into TermCtx.vars); nil = none
	uf   bool   // contains an uninterpreted function / array variable
}

type bitset []uint64

func (b bitset) subsetOf(o bitset) bool {
	for i, w := range b {
		if w == 0 {
			continue
		}
		if i >= len(o) || w&^o[i] != 0 {
			return false
		}
	}
	return true
}

func bitsetUnion(a, b bitset) bitset {
	if len(a) == 0 {
		return b
	}
	if len(b) == 0 {
		return a
	}
	if b.subsetOf(a) {
		return a
	}
	if a.subsetOf(b) {
		return b
	}
	n := len(a)
	if len(b) > n {
		n = len(b)
	}
	r := make(bitset, n)
	copy(r, a)
	for i, w := range b {
		r[i] |= w
	}
	return r
}

func (b bitset) with(i int) bitset {
	r := make(bitset, max(len(b), i/64+1))
	copy(r, b)
	r[i/64] |= 1 << uint(i%64)
	return r
}

func (t *Term) IsConst() bool { return t.Op == OpConst }

type tkey struct {
	op         Op
	k          Kind
	w, ew      int32
	c          uint64
	a0, a1, a2 int32
}

type TermCtx struct {
	tab    map[tkey]*Term
	named  map[string]*Term
	varIdx map[string]int
	nterms int
	True   *Term
	False  *Term
	small  [4][]*Term // cached small constants for widths 8,16,32,64
}

func NewTermCtx() *TermCtx {
	c := &TermCtx{tab: map[tkey]*Term{}, named: map[string]*Term{}, varIdx: map[string]int{}}
	c.True = c.mk(OpConst, SBool, 1, "")
	c.False = c.mk(OpConst, SBool, 0, "")
	return c
}

func mask(w int) uint64 {
	if w >= 64 {
		return ^uint64(0)
	}
	return (uint64(1) << uint(w)) - 1
}

func (c *TermCtx) mk(op Op, s Sort, cv uint64, name string, args ...*Term) *Term {
	var nkey string
	k := tkey{op: op, k: s.K, w: int32(s.W), ew: int32(s.EW), c: cv, a0: -1, a1: -1, a2: -1}
	if name != "" || len(args) > 3 {
		var sb strings.Builder
		fmt.Fprintf(&sb, "%d|%d|%d|%d|%d|%s", op, s.K, s.W, s.EW, cv, name)
		for _, a := range args {
			fmt.Fprintf(&sb, ",%d", a.ID)
		}
		nkey = sb.String()
		if t, ok := c.named[nkey]; ok {
			return t
		}
	} else {
		if len(args) > 0 {
			k.a0 = int32(args[0].ID)
		}
		if len(args) > 1 {
			k.a1 = int32(args[1].ID)
		}
		if len(args) > 2 {
			k.a2 = int32(args[2].ID)
		}
		if t, ok := c.tab[k]; ok {
			return t
		}
	}
	t := &Term{ID: c.nterms, Op: op, S: s, C: cv, Name: name}
	if len(args) > 0 {
		t.A = append([]*Term(nil), args...)
	}
	c.nterms++
	if s.K == KBV {
		t.umax = c.computeUmax(t)
	}
	switch op {
	case OpVar:
		i, ok := c.varIdx[name]
		if !ok {
			i = len(c.varIdx)
			c.varIdx[name] = i
		}
		t.vs = bitset(nil).with(i)
		if s.K == KArr {
			t.uf = true
		}
	case OpUF:
		t.uf = true
	}
	for _, a := range args {
		t.vs = bitsetUnion(t.vs, a.vs)
		if a.uf {
			t.uf = true
		}
	}
	if nkey != "" {
		c.named[nkey] = t
	} else {
		c.tab[k] = t
	}
	return t
}

func satAdd(a, b uint64) uint64 {
	s, carry := bits.Add64(a, b, 0)
	if carry != 0 {
		return ^uint64(0)
	}
	return s
}

func (c *TermCtx) computeUmax(t *Term) uint64 {
	m := mask(t.S.W)
	min := func(a, b uint64) uint64 {
		if a < b {
			return a
		}
		return b
	}
	max := func(a, b uint64) uint64 {
		if a > b {
			return a
		}
		return b
	}
	switch t.Op {
	case OpConst:
		return t.C
	case OpAdd:
		s := satAdd(t.A[0].umax, t.A[1].umax)
		if s > m {
			return m
		}
		return s
	case OpMul:
		hi, lo := bits.Mul64(t.A[0].umax, t.A[1].umax)
		if hi != 0 || lo > m {
			return m
		}
		return lo
	case OpAnd:
		return min(t.A[0].umax, t.A[1].umax)
	case OpOr, OpXor:
		// bounded by next power of two minus one of the larger bound
		x := max(t.A[0].umax, t.A[1].umax)
		if x == 0 {
			return 0
		}
		n := bits.Len64(x)
		return min(mask(n), m)
	case OpURem:
		if t.A[1].IsConst() && t.A[1].C > 0 {
			return min(t.A[0].umax, t.A[1].C-1)
		}
		return t.A[0].umax
	case OpUDiv:
		if t.A[1].IsConst() && t.A[1].C > 0 {
			return t.A[0].umax / t.A[1].C
		}
		return m
	case OpLShr:
		if t.A[1].IsConst() {
			if t.A[1].C >= 64 {
				return 0
			}
			return t.A[0].umax >> t.A[1].C
		}
		return t.A[0].umax
	case OpShl:
		if t.A[1].IsConst() && t.A[1].C < 64 {
			x := t.A[0].umax
			if bits.Len64(x)+int(t.A[1].C) <= t.S.W {
				return x << t.A[1].C
			}
		}
		return m
	case OpZExt:
		return t.A[0].umax
	case OpExtract:
		hi, lo := int(t.C>>8), int(t.C&0xff)
		w := hi - lo + 1
		if lo == 0 {
			return min(t.A[0].umax, mask(w))
		}
		return min(t.A[0].umax>>uint(lo), mask(w))
	case OpIte:
		return max(t.A[1].umax, t.A[2].umax)
	case OpConcat:
		// hi ++ lo
		lw := t.A[1].S.W
		if t.A[0].umax == 0 {
			return t.A[1].umax
		}
		return min(m, (t.A[0].umax<<uint(lw))|mask(lw))
	}
	return m
}

// ---------- constructors ----------

func (c *TermCtx) Const(w int, v uint64) *Term {
	v &= mask(w)
	if v < 512 {
		var wi int
		switch w {
		case 8:
			wi = 0
		case 16:
			wi = 1
		case 32:
			wi = 2
		case 64:
			wi = 3
		default:
			return c.mk(OpConst, BV(w), v, "")
		}
		if c.small[wi] == nil {
			c.small[wi] = make([]*Term, 512)
		}
		if t := c.small[wi][v]; t != nil {
			return t
		}
		t := c.mk(OpConst, BV(w), v, "")
		c.small[wi][v] = t
		return t
	}
	return c.mk(OpConst, BV(w), v, "")
}

func (c *TermCtx) Bool(b bool) *Term {
	if b {
		return c.True
	}
	return c.False
}

func (c *TermCtx) FConst(f float64) *Term {
	return c.mk(OpConst, SFP, math.Float64bits(f), "")
}

func (c *TermCtx) IConst(v uint64) *Term { return c.mk(OpConst, SInt, v, "") }

func (c *TermCtx) Var(name string, s Sort) *Term { return c.mk(OpVar, s, 0, name) }

func sx(v uint64, w int) int64 {
	if w >= 64 {
		return int64(v)
	}
	sh := uint(64 - w)
	return int64(v<<sh) >> sh
}

func isPow2(v uint64) (int, bool) {
	if v != 0 && v&(v-1) == 0 {
		return bits.TrailingZeros64(v), true
	}
	return 0, false
}

func (t *Term) signKnownZero() bool {
	return t.S.K == KBV && t.umax < (uint64(1)<<uint(t.S.W-1))
}

func foldBin(op Op, w int, a, b uint64) (uint64, bool) {
	m := mask(w)
	switch op {
	case OpAdd:
		return (a + b) & m, true
	case OpSub:
		return (a - b) & m, true
	case OpMul:
		return (a * b) & m, true
	case OpUDiv:
		if b == 0 {
			return m, true
		}
		return a / b, true
	case OpURem:
		if b == 0 {
			return a, true
		}
		return a % b, true
	case OpSDiv:
		sa, sb := sx(a, w), sx(b, w)
		if sb == 0 {
			if sa < 0 {
				return 1, true
			}
			return m, true
		}
		if sb == -1 {
			return uint64(-sa) & m, true
		}
		return uint64(sa/sb) & m, true
	case OpSRem:
		sa, sb := sx(a, w), sx(b, w)
		if sb == 0 {
			return a, true
		}
		if sb == -1 {
			return 0, true
		}
		return uint64(sa%sb) & m, true
	case OpAnd:
		return a & b, true
	case OpOr:
		return a | b, true
	case OpXor:
		return a ^ b, true
	case OpShl:
		if b >= uint64(w) {
			return 0, true
		}
		return (a << b) & m, true
	case OpLShr:
		if b >= uint64(w) {
			return 0, true
		}
		return a >> b, true
	case OpAShr:
		sa := sx(a, w)
		if b >= uint64(w) {
			b = uint64(w - 1)
		}
		return uint64(sa>>b) & m, true
	}
	return 0, false
}

func constLeafIte(t *Term) bool {
	return t.Op == OpIte && t.A[1].IsConst() && t.A[2].IsConst()
}

func (c *TermCtx) Bin(op Op, a, b *Term) *Term {
	w := a.S.W
	if a.S != b.S {
		panic(fmt.Sprintf("Bin %v sort mismatch %v %v", op, a.S, b.S))
	}
	if a.IsConst() && b.IsConst() {
		if v, ok := foldBin(op, w, a.C, b.C); ok {
			return c.Const(w, v)
		}
	}
	// distribute over ite with constant leaves (keeps small value sets explicit)
	if b.IsConst() && constLeafIte(a) {
		return c.Ite(a.A[0], c.Bin(op, a.A[1], b), c.Bin(op, a.A[2], b))
	}
	if a.IsConst() && constLeafIte(b) {
		return c.Ite(b.A[0], c.Bin(op, a, b.A[1]), c.Bin(op, a, b.A[2]))
	}
	m := mask(w)
	switch op {
	case OpAdd:
		if a.IsConst() {
			a, b = b, a
		}
		if b.IsConst() && b.C == 0 {
			return a
		}
		// (x + c1) + c2
		if b.IsConst() && a.Op == OpAdd && a.A[1].IsConst() {
			return c.Bin(OpAdd, a.A[0], c.Const(w, a.A[1].C+b.C))
		}
	case OpSub:
		if b.IsConst() {
			if b.C == 0 {
				return a
			}
			return c.Bin(OpAdd, a, c.Const(w, -b.C))
		}
		if a == b {
			return c.Const(w, 0)
		}
	case OpMul:
		if a.IsConst() {
			a, b = b, a
		}
		if b.IsConst() {
			if b.C == 0 {
				return b
			}
			if b.C == 1 {
				return a
			}
			if k, ok := isPow2(b.C); ok {
				return c.Bin(OpShl, a, c.Const(w, uint64(k)))
			}
		}
	case OpAnd:
		if a.IsConst() {
			a, b = b, a
		}
		if b.IsConst() {
			if b.C == 0 {
				return b
			}
			if b.C == m {
				return a
			}
			// mask subsumes all possibly-set bits
			if a.umax != m || w < 64 {
				n := bits.Len64(a.umax)
				if n < 64 && b.C&mask(n) == mask(n) {
					return a
				}
			}
			// low mask of a wide value: extract + zext (keeps umax tight)
			if k, ok := isPow2(b.C + 1); ok && k > 0 && k < w {
				return c.ZExt(c.Extract(a, k-1, 0), w)
			}
		}
		if a == b {
			return a
		}
	case OpOr, OpXor:
		if a.IsConst() {
			a, b = b, a
		}
		if b.IsConst() && b.C == 0 {
			return a
		}
		// zext(lo) | zext(hi) << k  with k = width(lo), widths adding up: byte re-assembly = concat(hi, lo)
		if op == OpOr {
			for i := 0; i < 2; i++ {
				lo, sh := a, b
				if i == 1 {
					lo, sh = b, a
				}
				if lo.Op == OpZExt && sh.Op == OpShl && sh.A[1].IsConst() && sh.A[0].Op == OpZExt {
					l, h, k := lo.A[0], sh.A[0].A[0], int(sh.A[1].C)
					if k == l.S.W && l.S.W+h.S.W == w {
						return c.Concat(h, l)
					}
				}
			}
		}
		if a == b {
			if op == OpOr {
				return a
			}
			return c.Const(w, 0)
		}
	case OpShl, OpLShr, OpAShr:
		if b.IsConst() {
			if b.C == 0 {
				return a
			}
			if b.C >= uint64(w) && op != OpAShr {
				return c.Const(w, 0)
			}
			if op == OpAShr && a.signKnownZero() {
				return c.Bin(OpLShr, a, b)
			}
			if op == OpLShr && a.umax>>b.C == 0 {
				return c.Const(w, 0)
			}
			if op == OpLShr && a.Op == OpZExt && b.C >= uint64(a.A[0].S.W) {
				return c.Const(w, 0)
			}
		}
		if a.IsConst() && a.C == 0 {
			return a
		}
	case OpSRem:
		if a.signKnownZero() && b.signKnownZero() {
			return c.Bin(OpURem, a, b)
		}
	case OpSDiv:
		if a.signKnownZero() && b.signKnownZero() {
			return c.Bin(OpUDiv, a, b)
		}
	case OpURem:
		if b.IsConst() {
			if k, ok := isPow2(b.C); ok {
				if k == 0 {
					return c.Const(w, 0)
				}
				return c.Bin(OpAnd, a, c.Const(w, b.C-1))
			}
			if b.C != 0 && a.umax < b.C {
				return a
			}
		}
	case OpUDiv:
		if b.IsConst() {
			if k, ok := isPow2(b.C); ok {
				return c.Bin(OpLShr, a, c.Const(w, uint64(k)))
			}
			if b.C != 0 && a.umax < b.C {
				return c.Const(w, 0)
			}
		}
	}
	return c.mk(op, a.S, 0, "", a, b)
}

func (c *TermCtx) Not(a *Term) *Term {
	if a.IsConst() {
		return c.Const(a.S.W, ^a.C)
	}
	if a.Op == OpNot {
		return a.A[0]
	}
	return c.mk(OpNot, a.S, 0, "", a)
}

func (c *TermCtx) Neg(a *Term) *Term {
	if a.IsConst() {
		return c.Const(a.S.W, -a.C)
	}
	return c.mk(OpNeg, a.S, 0, "", a)
}

func (c *TermCtx) Extract(a *Term, hi, lo int) *Term {
	w := hi - lo + 1
	if lo == 0 && w == a.S.W {
		return a
	}
	if a.IsConst() {
		return c.Const(w, a.C>>uint(lo))
	}
	switch a.Op {
	case OpZExt:
		iw := a.A[0].S.W
		if hi < iw {
			return c.Extract(a.A[0], hi, lo)
		}
		if lo >= iw {
			return c.Const(w, 0)
		}
		if lo == 0 {
			return c.ZExt(a.A[0], w)
		}
	case OpSExt:
		iw := a.A[0].S.W
		if hi < iw {
			return c.Extract(a.A[0], hi, lo)
		}
	case OpExtract:
		ilo := int(a.C & 0xff)
		return c.Extract(a.A[0], hi+ilo, lo+ilo)
	case OpConcat:
		lw := a.A[1].S.W
		if hi < lw {
			return c.Extract(a.A[1], hi, lo)
		}
		if lo >= lw {
			return c.Extract(a.A[0], hi-lw, lo-lw)
		}
	case OpAnd, OpOr, OpXor:
		return c.Bin(a.Op, c.Extract(a.A[0], hi, lo), c.Extract(a.A[1], hi, lo))
	case OpNot:
		return c.Not(c.Extract(a.A[0], hi, lo))
	case OpShl:
		if a.A[1].IsConst() {
			k := int(a.A[1].C)
			if lo >= k {
				return c.Extract(a.A[0], hi-k, lo-k)
			}
			if hi < k {
				return c.Const(w, 0)
			}
		}
	case OpLShr:
		if a.A[1].IsConst() {
			k := int(a.A[1].C)
			if hi+k < a.S.W {
				return c.Extract(a.A[0], hi+k, lo+k)
			}
			if lo+k >= a.S.W {
				return c.Const(w, 0)
			}
		}
	case OpAdd, OpSub, OpMul:
		if lo == 0 {
			return c.Bin(a.Op, c.Extract(a.A[0], hi, 0), c.Extract(a.A[1], hi, 0))
		}
	case OpIte:
		if a.A[1].IsConst() || a.A[2].IsConst() {
			return c.Ite(a.A[0], c.Extract(a.A[1], hi, lo), c.Extract(a.A[2], hi, lo))
		}
	}
	return c.mk(OpExtract, BV(w), uint64(hi)<<8|uint64(lo), "", a)
}

func (c *TermCtx) ZExt(a *Term, w int) *Term {
	if a.S.W == w {
		return a
	}
	if a.S.W > w {
		return c.Extract(a, w-1, 0)
	}
	if a.IsConst() {
		return c.Const(w, a.C)
	}
	if a.Op == OpZExt {
		return c.ZExt(a.A[0], w)
	}
	return c.mk(OpZExt, BV(w), 0, "", a)
}

func (c *TermCtx) SExt(a *Term, w int) *Term {
	if a.S.W == w {
		return a
	}
	if a.S.W > w {
		return c.Extract(a, w-1, 0)
	}
	if a.IsConst() {
		return c.Const(w, uint64(sx(a.C, a.S.W)))
	}
	if a.signKnownZero() {
		return c.ZExt(a, w)
	}
	return c.mk(OpSExt, BV(w), 0, "", a)
}

func (c *TermCtx) Concat(hi, lo *Term) *Term {
	w := hi.S.W + lo.S.W
	if hi.IsConst() && lo.IsConst() && w <= 64 {
		return c.Const(w, hi.C<<uint(lo.S.W)|lo.C)
	}
	if hi.IsConst() && hi.C == 0 {
		return c.ZExt(lo, w)
	}
	// adjacent extracts of the same term
	if hi.Op == OpExtract && lo.Op == OpExtract && hi.A[0] == lo.A[0] {
		hh, hl := int(hi.C>>8), int(hi.C&0xff)
		lh, ll := int(lo.C>>8), int(lo.C&0xff)
		if hl == lh+1 {
			return c.Extract(hi.A[0], hh, ll)
		}
	}
	return c.mk(OpConcat, BV(w), 0, "", hi, lo)
}

func (c *TermCtx) Cmp(op Op, a, b *Term) *Term {
	if a.S != b.S {
		panic(fmt.Sprintf("Cmp %v sort mismatch %v %v", op, a.S, b.S))
	}
	if a.S.K == KBool {
		if op != OpEq {
			panic("bool cmp")
		}
		if a.IsConst() {
			a, b = b, a
		}
		if b.IsConst() {
			if b.C == 1 {
				return a
			}
			return c.BNot(a)
		}
		if a == b {
			return c.True
		}
		return c.mk(OpEq, SBool, 0, "", a, b)
	}
	if a.S.K == KArr {
		if a == b {
			return c.True
		}
		return c.mk(OpEq, SBool, 0, "", a, b)
	}
	w := a.S.W
	if a.IsConst() && b.IsConst() {
		switch op {
		case OpEq:
			return c.Bool(a.C == b.C)
		case OpUlt:
			return c.Bool(a.C < b.C)
		case OpUle:
			return c.Bool(a.C <= b.C)
		case OpSlt:
			return c.Bool(sx(a.C, w) < sx(b.C, w))
		case OpSle:
			return c.Bool(sx(a.C, w) <= sx(b.C, w))
		}
	}
	if a == b {
		switch op {
		case OpEq, OpUle, OpSle:
			return c.True
		default:
			return c.False
		}
	}
	if b.IsConst() && constLeafIte(a) {
		return c.Ite(a.A[0], c.Cmp(op, a.A[1], b), c.Cmp(op, a.A[2], b))
	}
	if a.IsConst() && constLeafIte(b) {
		return c.Ite(b.A[0], c.Cmp(op, a, b.A[1]), c.Cmp(op, a, b.A[2]))
	}
	if op == OpSlt || op == OpSle {
		if a.signKnownZero() && b.signKnownZero() {
			if op == OpSlt {
				op = OpUlt
			} else {
				op = OpUle
			}
		}
	}
	switch op {
	case OpEq:
		if a.IsConst() {
			a, b = b, a
		}
		if b.IsConst() {
			if b.C > a.umax {
				return c.False
			}
			// zext(x) == c  ->  x == c
			if a.Op == OpZExt {
				return c.Cmp(OpEq, a.A[0], c.Const(a.A[0].S.W, b.C))
			}
			// ite(c, k1, k2) == k
			if a.Op == OpIte && a.A[1].IsConst() && a.A[2].IsConst() {
				t1, t2 := a.A[1].C == b.C, a.A[2].C == b.C
				switch {
				case t1 && t2:
					return c.True
				case t1:
					return a.A[0]
				case t2:
					return c.BNot(a.A[0])
				default:
					return c.False
				}
			}
			// x + c1 == c2
			if a.Op == OpAdd && a.A[1].IsConst() {
				return c.Cmp(OpEq, a.A[0], c.Const(w, b.C-a.A[1].C))
			}
		}
		if a.Op == OpZExt && b.Op == OpZExt && a.A[0].S == b.A[0].S {
			return c.Cmp(OpEq, a.A[0], b.A[0])
		}
		// concat(h, l) == t  ->  h == t[hi] && l == t[lo]
		if a.Op == OpConcat || b.Op == OpConcat {
			if a.Op != OpConcat {
				a, b = b, a
			}
			lw := a.A[1].S.W
			return c.BAnd(c.Cmp(OpEq, a.A[0], c.Extract(b, w-1, lw)), c.Cmp(OpEq, a.A[1], c.Extract(b, lw-1, 0)))
		}
		// (x ^ d) == x  ->  d == 0 ;  (x ^ d) == (x ^ e) -> d == e
		if a.Op == OpXor || b.Op == OpXor {
			if b.Op != OpXor {
				a, b = b, a
			}
			// now b is an xor
			if a == b.A[0] {
				return c.Cmp(OpEq, b.A[1], c.Const(w, 0))
			}
			if a == b.A[1] {
				return c.Cmp(OpEq, b.A[0], c.Const(w, 0))
			}
			if a.Op == OpXor && b == a.A[0] {
				return c.Cmp(OpEq, a.A[1], c.Const(w, 0))
			}
			if a.Op == OpXor && b == a.A[1] {
				return c.Cmp(OpEq, a.A[0], c.Const(w, 0))
			}
			if a.Op == OpXor {
				for i := 0; i < 2; i++ {
					for j := 0; j < 2; j++ {
						if a.A[i] == b.A[j] {
							return c.Cmp(OpEq, a.A[1-i], b.A[1-j])
						}
					}
				}
			}
		}
		if a.ID > b.ID {
			a, b = b, a
		}
	case OpUlt:
		if b.IsConst() && b.C == 0 {
			return c.False
		}
		if b.IsConst() && a.umax < b.C {
			return c.True
		}
		if a.IsConst() && a.C >= b.umax {
			return c.False
		}
		if a.Op == OpZExt && b.Op == OpZExt && a.A[0].S == b.A[0].S {
			return c.Cmp(OpUlt, a.A[0], b.A[0])
		}
		if a.Op == OpZExt && b.IsConst() && b.C <= mask(a.A[0].S.W) {
			return c.Cmp(OpUlt, a.A[0], c.Const(a.A[0].S.W, b.C))
		}
		if b.Op == OpZExt && a.IsConst() && a.C <= mask(b.A[0].S.W) {
			return c.Cmp(OpUlt, c.Const(b.A[0].S.W, a.C), b.A[0])
		}
	case OpUle:
		if a.IsConst() && a.C == 0 {
			return c.True
		}
		if b.IsConst() && a.umax <= b.C {
			return c.True
		}
		if a.IsConst() && a.C > b.umax {
			return c.False
		}
		if a.Op == OpZExt && b.Op == OpZExt && a.A[0].S == b.A[0].S {
			return c.Cmp(OpUle, a.A[0], b.A[0])
		}
		if a.Op == OpZExt && b.IsConst() && b.C <= mask(a.A[0].S.W) {
			return c.Cmp(OpUle, a.A[0], c.Const(a.A[0].S.W, b.C))
		}
		if b.Op == OpZExt && a.IsConst() && a.C <= mask(b.A[0].S.W) {
			return c.Cmp(OpUle, c.Const(b.A[0].S.W, a.C), b.A[0])
		}
	}
	return c.mk(op, SBool, 0, "", a, b)
}

func (c *TermCtx) BNot(a *Term) *Term {
	if a.IsConst() {
		return c.Bool(a.C == 0)
	}
	if a.Op == OpBNot {
		return a.A[0]
	}
	return c.mk(OpBNot, SBool, 0, "", a)
}

func (c *TermCtx) BAnd(a, b *Term) *Term {
	if a.IsConst() {
		if a.C == 1 {
			return b
		}
		return a
	}
	if b.IsConst() {
		if b.C == 1 {
			return a
		}
		return b
	}
	if a == b {
		return a
	}
	if a.ID > b.ID {
		a, b = b, a
	}
	return c.mk(OpBAnd, SBool, 0, "", a, b)
}

func (c *TermCtx) BOr(a, b *Term) *Term {
	if a.IsConst() {
		if a.C == 1 {
			return a
		}
		return b
	}
	if b.IsConst() {
		if b.C == 1 {
			return b
		}
		return a
	}
	if a == b {
		return a
	}
	if a.ID > b.ID {
		a, b = b, a
	}
	return c.mk(OpBOr, SBool, 0, "", a, b)
}

func (c *TermCtx) Ite(cond, a, b *Term) *Term {
	if cond.IsConst() {
		if cond.C == 1 {
			return a
		}
		return b
	}
	if a == b {
		return a
	}
	if a.S.K == KBool {
		if a.IsConst() && b.IsConst() {
			if a.C == 1 {
				return cond
			}
			return c.BNot(cond)
		}
		if a.IsConst() {
			if a.C == 1 {
				return c.BOr(cond, b)
			}
			return c.BAnd(c.BNot(cond), b)
		}
		if b.IsConst() {
			if b.C == 1 {
				return c.BOr(c.BNot(cond), a)
			}
			return c.BAnd(cond, a)
		}
	}
	if cond.Op == OpBNot {
		return c.Ite(cond.A[0], b, a)
	}
	return c.mk(OpIte, a.S, 0, "", cond, a, b)
}

// arrays
func (c *TermCtx) ConstArr(iw, ew int, v uint64) *Term {
	return c.mk(OpConstArr, Sort{K: KArr, W: iw, EW: ew}, v&mask(ew), "")
}

func (c *TermCtx) Store(arr, idx, val *Term) *Term {
	// store over store at same concrete index
	if arr.Op == OpStore && arr.A[1] == idx {
		return c.mk(OpStore, arr.S, 0, "", arr.A[0], idx, val)
	}
	return c.mk(OpStore, arr.S, 0, "", arr, idx, val)
}

func (c *TermCtx) Select(arr, idx *Term) *Term {
	for {
		switch arr.Op {
		case OpStore:
			si := arr.A[1]
			if si == idx {
				return arr.A[2]
			}
			if si.IsConst() && idx.IsConst() {
				arr = arr.A[0]
				continue
			}
			// provably different by range
			if si.IsConst() && si.C > idx.umax {
				arr = arr.A[0]
				continue
			}
			if idx.IsConst() && idx.C > si.umax {
				arr = arr.A[0]
				continue
			}
		case OpConstArr:
			return c.Const(arr.S.EW, arr.C)
		}
		break
	}
	return c.mk(OpSelect, BV(arr.S.EW), 0, "", arr, idx)
}

// floats
func (c *TermCtx) FBin(op Op, a, b *Term) *Term {
	if a.IsConst() && b.IsConst() {
		x, y := math.Float64frombits(a.C), math.Float64frombits(b.C)
		switch op {
		case OpFAdd:
			return c.FConst(x + y)
		case OpFSub:
			return c.FConst(x - y)
		case OpFMul:
			return c.FConst(x * y)
		case OpFDiv:
			return c.FConst(x / y)
		}
	}
	return c.mk(op, SFP, 0, "", a, b)
}

func (c *TermCtx) FCmp(op Op, a, b *Term) *Term {
	if a.IsConst() && b.IsConst() {
		x, y := math.Float64frombits(a.C), math.Float64frombits(b.C)
		switch op {
		case OpFEq:
			return c.Bool(x == y)
		case OpFLt:
			return c.Bool(x < y)
		case OpFLe:
			return c.Bool(x <= y)
		}
	}
	return c.mk(op, SBool, 0, "", a, b)
}

func (c *TermCtx) FUn(op Op, a *Term) *Term {
	if a.IsConst() {
		x := math.Float64frombits(a.C)
		switch op {
		case OpFNeg:
			return c.FConst(-x)
		case OpFAbs:
			return c.FConst(math.Abs(x))
		case OpFIsNaN:
			return c.Bool(x != x)
		}
	}
	s := SFP
	if op == OpFIsNaN {
		s = SBool
	}
	return c.mk(op, s, 0, "", a)
}

func (c *TermCtx) FRound(a *Term, mode uint64) *Term {
	if a.IsConst() {
		x := math.Float64frombits(a.C)
		switch mode {
		case 0:
			return c.FConst(math.Round(x))
		case 1:
			return c.FConst(math.Floor(x))
		case 2:
			return c.FConst(math.Ceil(x))
		case 3:
			return c.FConst(math.Trunc(x))
		default:
			return c.FConst(math.RoundToEven(x))
		}
	}
	return c.mk(OpFRound, SFP, mode, "", a)
}

func (c *TermCtx) IntToFP(a *Term, signed bool) *Term {
	if a.IsConst() {
		if signed {
			return c.FConst(float64(sx(a.C, a.S.W)))
		}
		return c.FConst(float64(a.C))
	}
	if signed {
		return c.mk(OpSToFP, SFP, 0, "", a)
	}
	return c.mk(OpUToFP, SFP, 0, "", a)
}

// FPToInt: RTZ; out-of-range results are unspecified (callers add obligations).
func (c *TermCtx) FPToInt(a *Term, w int, signed bool) *Term {
	if a.IsConst() {
		x := math.Float64frombits(a.C)
		if signed {
			return c.Const(w, uint64(int64(x)))
		}
		return c.Const(w, uint64(x))
	}
	if signed {
		return c.mk(OpFToSBV, BV(w), 0, "", a)
	}
	return c.mk(OpFToUBV, BV(w), 0, "", a)
}

func (c *TermCtx) FFromBits(a *Term) *Term {
	if a.IsConst() {
		return c.mk(OpConst, SFP, a.C, "")
	}
	return c.mk(OpFFromBits, SFP, 0, "", a)
}

func (c *TermCtx) UF(name string, s Sort, args ...*Term) *Term {
	return c.mk(OpUF, s, 0, name, args...)
}

// integer (mathematical) helpers for decimal witnesses
func (c *TermCtx) BV2Nat(a *Term) *Term { return c.mk(OpBV2Nat, SInt, 0, "", a) }
func (c *TermCtx) IBin(op Op, a, b *Term) *Term {
	s := SInt
	if op == OpILe || op == OpIEq {
		s = SBool
	}
	return c.mk(op, s, 0, "", a, b)
}

// ---------- SMT-LIB text of one node (children referenced by name) ----------

func (t *Term) ref() string {
	switch t.Op {
	case OpConst:
		switch t.S.K {
		case KBool:
			if t.C == 1 {
				return "true"
			}
			return "false"
		case KBV:
			if t.S.W%4 == 0 {
				return fmt.Sprintf("#x%0*x", t.S.W/4, t.C)
			}
			return fmt.Sprintf("#b%0*b", t.S.W, t.C)
		case KFP:
			return fmt.Sprintf("((_ to_fp 11 53) #x%016x)", t.C)
		case KInt:
			return fmt.Sprintf("%d", t.C)
		}
	case OpVar:
		return t.Name
	}
	return fmt.Sprintf("t%d", t.ID)
}

func (t *Term) body() string {
	a := func(i int) string { return t.A[i].ref() }
	switch t.Op {
	case OpExtract:
		return fmt.Sprintf("((_ extract %d %d) %s)", t.C>>8, t.C&0xff, a(0))
	case OpZExt:
		return fmt.Sprintf("((_ zero_extend %d) %s)", t.S.W-t.A[0].S.W, a(0))
	case OpSExt:
		return fmt.Sprintf("((_ sign_extend %d) %s)", t.S.W-t.A[0].S.W, a(0))
	case OpConstArr:
		return fmt.Sprintf("((as const %s) %s)", t.S.SMT(), (&Term{Op: OpConst, S: BV(t.S.EW), C: t.C}).ref())
	case OpFRound:
		return fmt.Sprintf("(fp.roundToIntegral %s %s)", [...]string{"RNA", "RTN", "RTP", "RTZ", "RNE"}[t.C], a(0))
	case OpSToFP:
		return fmt.Sprintf("((_ to_fp 11 53) RNE %s)", a(0))
	case OpUToFP:
		return fmt.Sprintf("((_ to_fp_unsigned 11 53) RNE %s)", a(0))
	case OpFToSBV:
		return fmt.Sprintf("((_ fp.to_sbv %d) RTZ %s)", t.S.W, a(0))
	case OpFToUBV:
		return fmt.Sprintf("((_ fp.to_ubv %d) RTZ %s)", t.S.W, a(0))
	case OpFFromBits:
		return fmt.Sprintf("((_ to_fp 11 53) %s)", a(0))
	case OpUF:
		if len(t.A) == 0 {
			return t.Name
		}
		var sb strings.Builder
		sb.WriteString("(" + t.Name)
		for i := range t.A {
			sb.WriteString(" " + a(i))
		}
		sb.WriteString(")")
		return sb.String()
	}
	name, ok := opSMT[t.Op]
	if !ok {
		panic(fmt.Sprintf("no smt for op %d", t.Op))
	}
	var sb strings.Builder
	sb.WriteString("(" + name)
	for i := range t.A {
		sb.WriteString(" " + a(i))
	}
	sb.WriteString(")")
	return sb.String()
}

// ---------- concrete evaluation under a model ----------

type Model map[string]uint64

type arrVal struct {
	def uint64
	m   map[uint64]uint64
}

type Evaluator struct {
	m     Model
	cache map[int]uint64
	arrs  map[int]*arrVal
	// set when the evaluation touched something the evaluator cannot decide
	// exactly (uninterpreted functions, array equality, array variables)
	imprecise bool
}

func NewEvaluator(m Model) *Evaluator {
	return &Evaluator{m: m, cache: map[int]uint64{}, arrs: map[int]*arrVal{}}
}

func (e *Evaluator) arr(t *Term) *arrVal {
	if v, ok := e.arrs[t.ID]; ok {
		return v
	}
	var v *arrVal
	switch t.Op {
	case OpConstArr:
		v = &arrVal{def: t.C, m: map[uint64]uint64{}}
	case OpStore:
		// walk the chain iteratively
		chain := []*Term{}
		cur := t
		for cur.Op == OpStore {
			if _, ok := e.arrs[cur.ID]; ok {
				break
			}
			chain = append(chain, cur)
			cur = cur.A[0]
		}
		base := e.arr(cur)
		nv := &arrVal{def: base.def, m: make(map[uint64]uint64, len(base.m)+len(chain))}
		for k, x := range base.m {
			nv.m[k] = x
		}
		for i := len(chain) - 1; i >= 0; i-- {
			nv.m[e.Eval(chain[i].A[1])] = e.Eval(chain[i].A[2])
		}
		v = nv
	case OpIte:
		if e.Eval(t.A[0]) != 0 {
			v = e.arr(t.A[1])
		} else {
			v = e.arr(t.A[2])
		}
	case OpVar:
		v = &arrVal{m: map[uint64]uint64{}}
		e.imprecise = true
	default:
		panic("arr eval")
	}
	e.arrs[t.ID] = v
	return v
}

func b2u(b bool) uint64 {
	if b {
		return 1
	}
	return 0
}

func (e *Evaluator) Eval(t *Term) uint64 {
	if t.Op == OpConst {
		return t.C
	}
	if v, ok := e.cache[t.ID]; ok {
		return v
	}
	var v uint64
	w := t.S.W
	switch t.Op {
	case OpVar:
		v = e.m[t.Name]
		if t.S.K == KBV {
			v &= mask(w)
		}
	case OpAdd, OpSub, OpMul, OpUDiv, OpURem, OpSDiv, OpSRem, OpAnd, OpOr, OpXor, OpShl, OpLShr, OpAShr:
		v, _ = foldBin(t.Op, w, e.Eval(t.A[0]), e.Eval(t.A[1]))
	case OpNot:
		v = ^e.Eval(t.A[0]) & mask(w)
	case OpNeg:
		v = -e.Eval(t.A[0]) & mask(w)
	case OpConcat:
		v = e.Eval(t.A[0])<<uint(t.A[1].S.W) | e.Eval(t.A[1])
	case OpExtract:
		v = (e.Eval(t.A[0]) >> (t.C & 0xff)) & mask(w)
	case OpZExt:
		v = e.Eval(t.A[0])
	case OpSExt:
		v = uint64(sx(e.Eval(t.A[0]), t.A[0].S.W)) & mask(w)
	case OpEq:
		if t.A[0].S.K == KArr {
			v = 1
			e.imprecise = true
		} else {
			v = b2u(e.Eval(t.A[0]) == e.Eval(t.A[1]))
		}
	case OpUlt:
		v = b2u(e.Eval(t.A[0]) < e.Eval(t.A[1]))
	case OpUle:
		v = b2u(e.Eval(t.A[0]) <= e.Eval(t.A[1]))
	case OpSlt:
		v = b2u(sx(e.Eval(t.A[0]), t.A[0].S.W) < sx(e.Eval(t.A[1]), t.A[0].S.W))
	case OpSle:
		v = b2u(sx(e.Eval(t.A[0]), t.A[0].S.W) <= sx(e.Eval(t.A[1]), t.A[0].S.W))
	case OpIte:
		if e.Eval(t.A[0]) != 0 {
			v = e.Eval(t.A[1])
		} else {
			v = e.Eval(t.A[2])
		}
	case OpBAnd:
		v = b2u(e.Eval(t.A[0]) != 0 && e.Eval(t.A[1]) != 0)
	case OpBOr:
		v = b2u(e.Eval(t.A[0]) != 0 || e.Eval(t.A[1]) != 0)
	case OpBNot:
		v = b2u(e.Eval(t.A[0]) == 0)
	case OpSelect:
		av := e.arr(t.A[0])
		i := e.Eval(t.A[1])
		if x, ok := av.m[i]; ok {
			v = x
		} else {
			v = av.def
		}
	case OpFAdd, OpFSub, OpFMul, OpFDiv:
		x, y := math.Float64frombits(e.Eval(t.A[0])), math.Float64frombits(e.Eval(t.A[1]))
		var r float64
		switch t.Op {
		case OpFAdd:
			r = x + y
		case OpFSub:
			r = x - y
		case OpFMul:
			r = x * y
		case OpFDiv:
			r = x / y
		}
		v = math.Float64bits(r)
	case OpFNeg:
		v = math.Float64bits(-math.Float64frombits(e.Eval(t.A[0])))
	case OpFAbs:
		v = math.Float64bits(math.Abs(math.Float64frombits(e.Eval(t.A[0]))))
	case OpFIsNaN:
		x := math.Float64frombits(e.Eval(t.A[0]))
		v = b2u(x != x)
	case OpFRound:
		x := math.Float64frombits(e.Eval(t.A[0]))
		switch t.C {
		case 0:
			x = math.Round(x)
		case 1:
			x = math.Floor(x)
		case 2:
			x = math.Ceil(x)
		case 3:
			x = math.Trunc(x)
		default:
			x = math.RoundToEven(x)
		}
		v = math.Float64bits(x)
	case OpFEq, OpFLt, OpFLe:
		x, y := math.Float64frombits(e.Eval(t.A[0])), math.Float64frombits(e.Eval(t.A[1]))
		switch t.Op {
		case OpFEq:
			v = b2u(x == y)
		case OpFLt:
			v = b2u(x < y)
		case OpFLe:
			v = b2u(x <= y)
		}
	case OpSToFP:
		v = math.Float64bits(float64(sx(e.Eval(t.A[0]), t.A[0].S.W)))
	case OpUToFP:
		v = math.Float64bits(float64(e.Eval(t.A[0])))
	case OpFToSBV:
		v = uint64(int64(math.Float64frombits(e.Eval(t.A[0])))) & mask(w)
	case OpFToUBV:
		v = uint64(math.Float64frombits(e.Eval(t.A[0]))) & mask(w)
	case OpFFromBits:
		v = e.Eval(t.A[0])
	case OpUF:
		v = e.m[ufKey(t, e)]
		e.imprecise = true
	case OpBV2Nat:
		v = e.Eval(t.A[0])
	case OpIAdd:
		v = e.Eval(t.A[0]) + e.Eval(t.A[1])
	case OpIMul:
		v = e.Eval(t.A[0]) * e.Eval(t.A[1])
	case OpILe:
		v = b2u(e.Eval(t.A[0]) <= e.Eval(t.A[1]))
	case OpIEq:
		v = b2u(e.Eval(t.A[0]) == e.Eval(t.A[1]))
	default:
		panic(fmt.Sprintf("eval op %d", t.Op))
	}
	e.cache[t.ID] = v
	return v
}

func ufKey(t *Term, e *Evaluator) string {
	var sb strings.Builder
	sb.WriteString("uf:" + t.Name)
	for _, a := range t.A {
		fmt.Fprintf(&sb, ":%x", e.Eval(a))
	}
	return sb.String()
}

// collect the free variables and UF applications of a term (for get-value)
func collectVars(t *Term, seen map[int]bool, out *[]*Term) {
	if seen[t.ID] {
		return
	}
	seen[t.ID] = true
	if t.Op == OpVar {
		*out = append(*out, t)
		return
	}
	for _, a := range t.A {
		collectVars(a, seen, out)
	}
}


// possibleValues returns the set of values t can take when that set is small
// and syntactically evident (ite trees over constants, narrow terms, and
// arithmetic over such); nil when unknown or larger than max.
func (c *TermCtx) possibleValues(t *Term, max int) []uint64 {
	memo := map[int][]uint64{}
	var rec func(t *Term, depth int) []uint64
	add := func(set []uint64, v uint64) []uint64 {
		for _, x := range set {
			if x == v {
				return set
			}
		}
		return append(set, v)
	}
	rec = func(t *Term, depth int) []uint64 {
		if t.S.K != KBV || depth > 24 {
			return nil
		}
		if t.Op == OpConst {
			return []uint64{t.C}
		}
		if r, ok := memo[t.ID]; ok {
			return r
		}
		var res []uint64
		switch t.Op {
		case OpIte:
			a, b := rec(t.A[1], depth+1), rec(t.A[2], depth+1)
			if a != nil && b != nil {
				res = append([]uint64(nil), a...)
				for _, v := range b {
					res = add(res, v)
				}
			}
		case OpZExt:
			res = rec(t.A[0], depth+1)
		case OpAdd, OpSub, OpAnd, OpOr, OpXor, OpShl, OpLShr, OpMul:
			a, b := rec(t.A[0], depth+1), rec(t.A[1], depth+1)
			if a != nil && b != nil && len(a)*len(b) <= 4*max {
				for _, x := range a {
					for _, y := range b {
						v, _ := foldBin(t.Op, t.S.W, x, y)
						res = add(res, v)
					}
				}
			}
		case OpExtract:
			if a := rec(t.A[0], depth+1); a != nil {
				lo := uint(t.C & 0xff)
				for _, x := range a {
					res = add(res, (x>>lo)&mask(t.S.W))
				}
			}
		}
		if res == nil && t.S.W <= 2 {
			for v := uint64(0); v <= mask(t.S.W); v++ {
				res = append(res, v)
			}
		}
		if res == nil && t.umax < uint64(max) && t.umax < 8 {
			for v := uint64(0); v <= t.umax; v++ {
				res = append(res, v)
			}
		}
		if len(res) > max {
			res = nil
		}
		memo[t.ID] = res
		return res
	}
	return rec(t, 0)
}
