package main

// Native model of package fmt's formatting verbs over symbolic values.

import (
	"fmt"
	"go/types"
	"math"
	"strconv"
	"strings"

	"golang.org/x/tools/go/ssa"
)


func (e *Exec) ifaceArgs(v Value) []Iface {
	s := v.(Slice)
	r := make([]Iface, s.len)
	for i := 0; i < s.len; i++ {
		r[i] = e.loadCell(s.o, s.off+i).(Iface)
	}
	return r
}

type fmtSpec struct {
	minus, zero, plus, sharp, space bool
	width, prec                     int
	hasWidth, hasPrec               bool
	verb                            byte
}

// fmtFormat prepares a format string: a concrete one is returned as it is; in
// a symbolic one every byte outside a verb is only asked whether it is '%'
// (two-way fork) and otherwise stays a symbolic literal (placeholder 'X' in the
// returned string, term in lits); bytes inside a verb are concretised.
func (e *Exec) fmtFormat(v Value) (string, map[int]*Term) {
	s, ok := v.(Str)
	if !ok {
		e.unsupported(fmt.Sprintf("expected string, got %T", v))
	}
	if s.Conc() {
		return s.s, nil
	}
	var sb strings.Builder
	lits := map[int]*Term{}
	inVerb := false
	endsVerb := func(c byte) bool { return c == '%' || (c >= 'a' && c <= 'z') || (c >= 'A' && c <= 'Z') }
	for i, b := range s.b {
		if b.IsConst() {
			c := byte(b.C)
			sb.WriteByte(c)
			if inVerb {
				if endsVerb(c) {
					inVerb = false
				}
			} else if c == '%' {
				inVerb = true
			}
			continue
		}
		if inVerb {
			c := byte(e.concretize(b, "symbolic byte inside a format verb"))
			sb.WriteByte(c)
			if endsVerb(c) {
				inVerb = false
			}
			continue
		}
		if e.branch(e.tc.Cmp(OpEq, b, e.tc.Const(8, '%'))) {
			sb.WriteByte('%')
			inVerb = true
		} else {
			sb.WriteByte('X')
			lits[i] = b
		}
	}
	return sb.String(), lits
}

func (e *Exec) sprintf(format string, args []Iface) Str { return e.sprintfL(format, nil, args) }

func (e *Exec) sprintfL(format string, lits map[int]*Term, args []Iface) Str {
	tc := e.tc
	out := Str{}
	argi := 0
	lit := func(s string) { out = strConcat(tc, out, Str{s: s}) }
	// a stretch of the format itself (may hold symbolic literals)
	litF := func(from, to int) {
		if len(lits) == 0 {
			lit(format[from:to])
			return
		}
		start := from
		for k := from; k < to; k++ {
			if t, ok := lits[k]; ok {
				lit(format[start:k])
				out = strConcat(tc, out, mkStr([]*Term{t}))
				start = k + 1
			}
		}
		lit(format[start:to])
	}
	i := 0
	for i < len(format) {
		j := strings.IndexByte(format[i:], '%')
		if j < 0 {
			litF(i, len(format))
			break
		}
		litF(i, i+j)
		i += j + 1
		if i >= len(format) {
			lit("%!(NOVERB)")
			break
		}
		var sp fmtSpec
	flags:
		for i < len(format) {
			switch format[i] {
			case '-':
				sp.minus = true
			case '0':
				sp.zero = true
			case '+':
				sp.plus = true
			case '#':
				sp.sharp = true
			case ' ':
				sp.space = true
			default:
				break flags
			}
			i++
		}
		if i < len(format) && format[i] == '*' {
			if argi < len(args) {
				sp.width = e.concInt(args[argi].v, "fmt width")
				sp.hasWidth = true
				argi++
			}
			i++
		} else {
			for i < len(format) && format[i] >= '0' && format[i] <= '9' {
				sp.width = sp.width*10 + int(format[i]-'0')
				sp.hasWidth = true
				i++
			}
		}
		if i < len(format) && format[i] == '.' {
			i++
			sp.hasPrec = true
			for i < len(format) && format[i] >= '0' && format[i] <= '9' {
				sp.prec = sp.prec*10 + int(format[i]-'0')
				i++
			}
		}
		if i >= len(format) {
			lit("%!(NOVERB)")
			break
		}
		sp.verb = format[i]
		i++
		if sp.verb == '%' {
			lit("%")
			continue
		}
		if argi >= len(args) {
			lit("%!" + string(sp.verb) + "(MISSING)")
			continue
		}
		out = strConcat(tc, out, e.formatArg(sp, args[argi]))
		argi++
	}
	if argi < len(args) {
		lit("%!(EXTRA ")
		for k := argi; k < len(args); k++ {
			if k > argi {
				lit(", ")
			}
			tn := "<nil>"
			if args[k].t != nil {
				tn = args[k].t.String()
			}
			lit(tn + "=")
			out = strConcat(tc, out, e.formatArg(fmtSpec{verb: 'v'}, args[k]))
		}
		lit(")")
	}
	return out
}

func (e *Exec) pad(sp fmtSpec, s Str, numeric bool) Str {
	if !sp.hasWidth || s.Len() >= sp.width {
		return s
	}
	n := sp.width - s.Len()
	if sp.minus {
		return strConcat(e.tc, s, Str{s: strings.Repeat(" ", n)})
	}
	if sp.zero && numeric {
		// keep a leading sign in front of the zeros
		if s.Len() > 0 {
			c := s.At(e.tc, 0)
			if c.IsConst() && (c.C == '-' || c.C == '+') {
				return strConcat(e.tc, strConcat(e.tc, s.Sub(0, 1), Str{s: strings.Repeat("0", n)}), s.Sub(1, s.Len()))
			}
		}
		return strConcat(e.tc, Str{s: strings.Repeat("0", n)}, s)
	}
	return strConcat(e.tc, Str{s: strings.Repeat(" ", n)}, s)
}

func (e *Exec) formatInt(t *Term, signed bool, base int, upper bool) Str {
	if t.IsConst() {
		var s string
		if signed {
			s = strconv.FormatInt(sx(t.C, t.S.W), base)
		} else {
			s = strconv.FormatUint(t.C, base)
		}
		if upper {
			s = strings.ToUpper(s)
		}
		return Str{s: s}
	}
	tc := e.tc
	neg := false
	var u *Term
	if signed {
		if e.branch(tc.Cmp(OpSlt, t, tc.Const(t.S.W, 0))) {
			neg = true
			u = tc.ZExt(tc.Neg(t), 64)
			if t.S.W == 64 {
				u = tc.Neg(t)
			}
		} else {
			u = tc.ZExt(t, 64)
		}
	} else {
		u = tc.ZExt(t, 64)
	}
	s := e.callModel("FormatUint", u, tc.Const(64, uint64(base))).(Str)
	if upper {
		b := s.Terms(tc)
		nb := make([]*Term, len(b))
		for i, c := range b {
			// digits are 0-9a-f: upper-case the letters
			isL := tc.Cmp(OpUle, tc.Const(8, 'a'), c)
			nb[i] = tc.Ite(isL, tc.Bin(OpSub, c, tc.Const(8, 32)), c)
		}
		s = mkStr(nb)
	}
	if neg {
		s = strConcat(tc, Str{s: "-"}, s)
	}
	return s
}

func (e *Exec) hexBytes(b []*Term, upper bool) Str {
	tc := e.tc
	out := make([]*Term, 0, 2*len(b))
	digit := func(n *Term) *Term { // n: 8-bit value 0..15
		base := uint64('a' - 10)
		if upper {
			base = 'A' - 10
		}
		return tc.Ite(tc.Cmp(OpUlt, n, tc.Const(8, 10)), tc.Bin(OpAdd, n, tc.Const(8, '0')), tc.Bin(OpAdd, n, tc.Const(8, base)))
	}
	for _, c := range b {
		out = append(out, digit(tc.Bin(OpLShr, c, tc.Const(8, 4))), digit(tc.Bin(OpAnd, c, tc.Const(8, 15))))
	}
	return mkStr(out)
}

func (e *Exec) formatArg(sp fmtSpec, a Iface) Str {
	if a.t == nil {
		if sp.verb == 'v' {
			return e.pad(sp, Str{s: "<nil>"}, false)
		}
		return Str{s: "%!" + string(sp.verb) + "(<nil>)"}
	}
	if sp.verb == 'T' {
		return e.pad(sp, Str{s: a.t.String()}, false)
	}
	// error / Stringer
	switch sp.verb {
	case 'v', 's', 'q', 'w':
		if !(sp.verb == 'v' && sp.sharp) {
			if e.hasMethod(a.t, "Error") && e.isErrorType(a.t) {
				if p, ok := a.v.(Ptr); ok && p.o == nil {
					return Str{s: "<nil>"}
				}
				s := e.invoke(a, "Error").(Str)
				return e.formatString(sp, s)
			}
			if e.hasMethod(a.t, "String") && e.isStringerType(a.t) {
				if p, ok := a.v.(Ptr); ok && p.o == nil {
					return Str{s: "<nil>"}
				}
				s := e.invoke(a, "String").(Str)
				return e.formatString(sp, s)
			}
		}
	}
	return e.formatValue(sp, a.t, a.v, 0)
}

func (e *Exec) isErrorType(t types.Type) bool {
	ms := e.prog.ssa.MethodSets.MethodSet(t)
	for i := 0; i < ms.Len(); i++ {
		if ms.At(i).Obj().Name() == "Error" {
			sig := ms.At(i).Type().(*types.Signature)
			return sig.Params().Len() == 0 && sig.Results().Len() == 1 && isString(sig.Results().At(0).Type())
		}
	}
	return false
}

func (e *Exec) isStringerType(t types.Type) bool {
	ms := e.prog.ssa.MethodSets.MethodSet(t)
	for i := 0; i < ms.Len(); i++ {
		if ms.At(i).Obj().Name() == "String" {
			sig := ms.At(i).Type().(*types.Signature)
			return sig.Params().Len() == 0 && sig.Results().Len() == 1 && isString(sig.Results().At(0).Type())
		}
	}
	return false
}

func (e *Exec) formatString(sp fmtSpec, s Str) Str {
	switch sp.verb {
	case 'q':
		if s.Conc() {
			return e.pad(sp, Str{s: strconv.Quote(s.s)}, false)
		}
		// approximation for symbolic strings: bytes between plain quotes
		e.note("fmt %q of symbolic string (approximated: no escaping)")
		return e.pad(sp, strConcat(e.tc, strConcat(e.tc, Str{s: `"`}, s), Str{s: `"`}), false)
	case 'x', 'X':
		return e.pad(sp, e.hexBytes(s.Terms(e.tc), sp.verb == 'X'), false)
	}
	if sp.hasPrec && sp.prec < s.Len() {
		s = s.Sub(0, sp.prec) // (byte based; fmt truncates runes)
	}
	return e.pad(sp, s, false)
}

func (e *Exec) formatValue(sp fmtSpec, t types.Type, v Value, depth int) Str {
	tc := e.tc
	if depth > 4 {
		return Str{s: "..."}
	}
	switch u := t.Underlying().(type) {
	case *types.Basic:
		switch {
		case u.Info()&types.IsString != 0:
			switch sp.verb {
			case 'v', 's', 'q', 'x', 'X':
				if sp.verb == 'v' && sp.sharp {
					return e.formatString(fmtSpec{verb: 'q'}, v.(Str))
				}
				return e.formatString(sp, v.(Str))
			}
		case u.Info()&types.IsBoolean != 0:
			b := e.boolTerm(v)
			s := "false"
			if e.branch(b) {
				s = "true"
			}
			return e.pad(sp, Str{s: s}, false)
		case u.Info()&types.IsInteger != 0:
			ti := e.intTerm(v)
			_, signed, _ := intInfo(t)
			switch sp.verb {
			case 'd', 'v':
				s := e.formatInt(ti, signed, 10, false)
				if sp.plus && signed {
					if c := s.At(tc, 0); !(c.IsConst() && c.C == '-') {
						s = strConcat(tc, Str{s: "+"}, s)
					}
				}
				return e.pad(sp, s, true)
			case 'x', 'X':
				s := e.formatInt(ti, signed, 16, sp.verb == 'X')
				if sp.sharp {
					s = strConcat(tc, Str{s: "0x"}, s)
				}
				return e.pad(sp, s, true)
			case 'o':
				return e.pad(sp, e.formatInt(ti, signed, 8, false), true)
			case 'b':
				return e.pad(sp, e.formatInt(ti, signed, 2, false), true)
			case 'c':
				var r *Term
				if signed {
					r = tc.SExt(ti, 64)
				} else {
					r = tc.ZExt(ti, 64)
				}
				return e.pad(sp, e.callModel("RuneToString", tc.Extract(r, 31, 0)).(Str), false)
			case 'q':
				if ti.IsConst() {
					return e.pad(sp, Str{s: strconv.QuoteRune(rune(ti.C))}, false)
				}
				return Str{s: "'?'"}
			case 's':
				return Str{s: "%!s(" + t.String() + "=?)"}
			}
		case u.Info()&types.IsFloat != 0:
			f := v.(*Term)
			if f.IsConst() && !e.recordFloats {
				format := "%"
				if sp.minus {
					format += "-"
				}
				if sp.plus {
					format += "+"
				}
				if sp.zero {
					format += "0"
				}
				if sp.hasWidth {
					format += strconv.Itoa(sp.width)
				}
				if sp.hasPrec {
					format += "." + strconv.Itoa(sp.prec)
				}
				format += string(sp.verb)
				return Str{s: fmt.Sprintf(format, math.Float64frombits(f.C))}
			}
			// symbolic float: opaque text, arguments recorded for the harness
			e.note("fmt float verb of symbolic float64 (opaque output; arguments exposed through symFloatArgs)")
			e.floatArgs = append(e.floatArgs, f)
			w := 8
			if sp.hasWidth {
				w = sp.width
			}
			return Str{s: strings.Repeat("#", w)}
		case u.Kind() == types.UnsafePointer:
			return Str{s: "0xPTR"}
		}
	case *types.Slice:
		s := v.(Slice)
		if eb, ok := u.Elem().Underlying().(*types.Basic); ok && eb.Kind() == types.Uint8 {
			switch sp.verb {
			case 's', 'q', 'x', 'X':
				return e.formatString(sp, mkStr(e.sliceBytes(s)))
			}
		}
		out := Str{s: "["}
		ec := e.cellsOf(u.Elem())
		for i := 0; i < s.len; i++ {
			if i > 0 {
				out = strConcat(tc, out, Str{s: " "})
			}
			ev := e.load(Ptr{o: s.o, off: s.off + i*ec}, u.Elem())
			out = strConcat(tc, out, e.formatElem(sp, u.Elem(), ev, depth+1))
		}
		return strConcat(tc, out, Str{s: "]"})
	case *types.Array:
		a := v.(Agg)
		ec := e.cellsOf(u.Elem())
		out := Str{s: "["}
		for i := 0; i < int(u.Len()); i++ {
			if i > 0 {
				out = strConcat(tc, out, Str{s: " "})
			}
			var ev Value
			if isAgg(u.Elem()) {
				ev = a[i*ec : (i+1)*ec]
			} else {
				ev = a[i]
			}
			out = strConcat(tc, out, e.formatElem(sp, u.Elem(), ev, depth+1))
		}
		return strConcat(tc, out, Str{s: "]"})
	case *types.Pointer:
		p := v.(Ptr)
		if p.o == nil {
			return Str{s: "<nil>"}
		}
		return Str{s: fmt.Sprintf("0xc%07x", p.o.id*16+p.off)}
	case *types.Interface:
		i := v.(Iface)
		return e.formatArg(sp, i)
	case *types.Struct:
		a := v.(Agg)
		l := e.layout(t)
		out := Str{s: "{"}
		for i := 0; i < u.NumFields(); i++ {
			if i > 0 {
				out = strConcat(tc, out, Str{s: " "})
			}
			if sp.plus || sp.sharp {
				out = strConcat(tc, out, Str{s: u.Field(i).Name() + ":"})
			}
			ft := u.Field(i).Type()
			var fv Value
			if isAgg(ft) {
				fv = a[l.fieldOff[i] : l.fieldOff[i]+e.cellsOf(ft)]
			} else {
				fv = a[l.fieldOff[i]]
			}
			out = strConcat(tc, out, e.formatElem(sp, ft, fv, depth+1))
		}
		return strConcat(tc, out, Str{s: "}"})
	case *types.Map:
		return Str{s: "map[...]"}
	case *types.Signature, *types.Chan:
		return Str{s: "0xFUNC"}
	}
	return Str{s: "%!" + string(sp.verb) + "(" + t.String() + ")"}
}

func (e *Exec) formatElem(sp fmtSpec, t types.Type, v Value, depth int) Str {
	if _, ok := t.Underlying().(*types.Interface); ok {
		return e.formatArg(sp, v.(Iface))
	}
	// methods on element types
	if sp.verb == 'v' || sp.verb == 's' {
		if e.isErrorType(t) {
			return e.invoke(Iface{t: t, v: v}, "Error").(Str)
		}
		if e.isStringerType(t) {
			return e.invoke(Iface{t: t, v: v}, "String").(Str)
		}
	}
	return e.formatValue(sp, t, v, depth)
}

func (e *Exec) sprint(args []Iface, ln bool) Str {
	tc := e.tc
	out := Str{}
	prevString := false
	for i, a := range args {
		isStr := a.t != nil && isString(a.t)
		if i > 0 && (ln || (!isStr && !prevString)) {
			out = strConcat(tc, out, Str{s: " "})
		}
		out = strConcat(tc, out, e.formatArg(fmtSpec{verb: 'v'}, a))
		prevString = isStr
	}
	if ln {
		out = strConcat(tc, out, Str{s: "\n"})
	}
	return out
}

func (e *Exec) writeTo(w Iface, s Str) Value {
	b := e.newByteSliceFromString(s)
	return e.invoke(w, "Write", b)
}

func init() {
	reg("fmt.Sprintf", func(e *Exec, args []Value, fn *ssa.Function) Value {
		f, lits := e.fmtFormat(args[0])
		return e.sprintfL(f, lits, e.ifaceArgs(args[1]))
	})
	reg("fmt.Sprint", func(e *Exec, args []Value, fn *ssa.Function) Value {
		return e.sprint(e.ifaceArgs(args[0]), false)
	})
	reg("fmt.Sprintln", func(e *Exec, args []Value, fn *ssa.Function) Value {
		return e.sprint(e.ifaceArgs(args[0]), true)
	})
	reg("fmt.Fprintf", func(e *Exec, args []Value, fn *ssa.Function) Value {
		f, lits := e.fmtFormat(args[1])
		return e.writeTo(args[0].(Iface), e.sprintfL(f, lits, e.ifaceArgs(args[2])))
	})
	reg("fmt.Fprint", func(e *Exec, args []Value, fn *ssa.Function) Value {
		return e.writeTo(args[0].(Iface), e.sprint(e.ifaceArgs(args[1]), false))
	})
	reg("fmt.Fprintln", func(e *Exec, args []Value, fn *ssa.Function) Value {
		return e.writeTo(args[0].(Iface), e.sprint(e.ifaceArgs(args[1]), true))
	})
	for _, n := range []string{"fmt.Printf", "fmt.Println", "fmt.Print"} {
		reg(n, func(e *Exec, args []Value, fn *ssa.Function) Value {
			return Tuple{e.tc.Const(64, 0), Iface{}}
		})
	}
	reg("fmt.Errorf", func(e *Exec, args []Value, fn *ssa.Function) Value {
		format, lits := e.fmtFormat(args[0])
		ia := e.ifaceArgs(args[1])
		msg := e.sprintfL(format, lits, ia)
		// %w: keep the wrapped error reachable through Unwrap
		if k := wrapIndex(format); k >= 0 && k < len(ia) && ia[k].t != nil && e.isErrorType(ia[k].t) {
			wt := e.pkgType("fmt", "wrapError")
			o := e.allocZero(wt, "fmt.wrapError")
			mp, mt := e.fieldPtr(Ptr{o: o}, wt, "msg")
			e.store(mp, mt, msg)
			ep, et := e.fieldPtr(Ptr{o: o}, wt, "err")
			e.store(ep, et, ia[k])
			return Iface{t: types.NewPointer(wt), v: Ptr{o: o}}
		}
		return e.mkError(msg)
	})
}

// index of the argument consumed by the first %w verb, or -1
func wrapIndex(format string) int {
	argi := 0
	for i := 0; i < len(format); i++ {
		if format[i] != '%' {
			continue
		}
		i++
		for i < len(format) && strings.IndexByte("+-# 0123456789.*", format[i]) >= 0 {
			if format[i] == '*' {
				argi++
			}
			i++
		}
		if i >= len(format) {
			break
		}
		if format[i] == '%' {
			continue
		}
		if format[i] == 'w' {
			return argi
		}
		argi++
	}
	return -1
}
