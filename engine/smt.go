package main

// SMT-LIB2 solver processes (DESIGN §2.4).  One long-lived process per worker;
// every term node is emitted once as a global define-fun; the path condition
// is mirrored as a push/pop stack and synchronised by common prefix.

import (
	"bufio"
	"fmt"
	"io"
	"os"
	"os/exec"
	"strconv"
	"strings"
	"syscall"
	"time"
)

type SolverKind int

const (
	Z3 SolverKind = iota
	Z3New
	CVC5
)

func (k SolverKind) String() string { return [...]string{"z3", "z3-new", "cvc5"}[k] }

type SolverStats struct {
	Queries   int
	Sat       int
	Unsat     int
	Unknown   int
	Errors    int
	Time      time.Duration
	Slowest   time.Duration
	SlowLabel string
	Restarts  int
}

type Solver struct {
	kind      SolverKind
	timeoutMs int
	cmd       *exec.Cmd
	in        io.WriteCloser
	out       *bufio.Reader
	lines     chan string
	emitted   map[int]bool
	declared  map[string]bool
	stack     []*Term
	Stats     SolverStats
	buf       strings.Builder
	log       io.Writer
}

func NewSolver(kind SolverKind, timeoutMs int) *Solver {
	s := &Solver{kind: kind, timeoutMs: timeoutMs}
	s.start()
	return s
}

func (s *Solver) start() {
	var cmd *exec.Cmd
	switch s.kind {
	case Z3:
		cmd = exec.Command("z3", "-in")
	case Z3New:
		cmd = exec.Command("z3-new", "-in")
	case CVC5:
		cmd = exec.Command("cvc5", "--incremental", "--produce-models", "--fp-exp", fmt.Sprintf("--tlimit-per=%d", s.timeoutMs), "--lang=smt2")
	}
	cmd.SysProcAttr = &syscall.SysProcAttr{Pdeathsig: syscall.SIGKILL}
	in, _ := cmd.StdinPipe()
	out, _ := cmd.StdoutPipe()
	cmd.Stderr = nil
	if err := cmd.Start(); err != nil {
		panic(fmt.Sprintf("cannot start solver %v: %v", s.kind, err))
	}
	s.cmd, s.in = cmd, in
	s.out = bufio.NewReaderSize(out, 1<<16)
	s.lines = make(chan string, 256)
	go func(r *bufio.Reader, ch chan string) {
		for {
			l, err := r.ReadString('\n')
			if l != "" {
				ch <- strings.TrimRight(l, "\r\n")
			}
			if err != nil {
				close(ch)
				return
			}
		}
	}(s.out, s.lines)
	s.emitted = map[int]bool{}
	s.declared = map[string]bool{}
	s.stack = nil
	s.buf.Reset()
	s.buf.WriteString("(set-option :global-declarations true)\n")
	if s.kind == CVC5 {
		s.buf.WriteString("(set-logic ALL)\n")
	} else {
		fmt.Fprintf(&s.buf, "(set-option :timeout %d)\n", s.timeoutMs)
	}
}

func (s *Solver) Close() {
	if s.cmd != nil {
		s.in.Close()
		s.cmd.Process.Kill()
		s.cmd.Wait()
		s.cmd = nil
	}
}

func (s *Solver) restart() {
	s.Close()
	s.Stats.Restarts++
	s.start()
}

func (s *Solver) SetTimeout(ms int) {
	if ms == s.timeoutMs {
		return
	}
	s.timeoutMs = ms
	if s.kind == CVC5 {
		s.restart()
	} else {
		fmt.Fprintf(&s.buf, "(set-option :timeout %d)\n", ms)
	}
}

// emit definitions for t and everything below it
func (s *Solver) emit(t *Term) {
	if t.Op == OpConst || s.emitted[t.ID] {
		return
	}
	// iterative post-order to survive very deep DAGs
	type fr struct {
		t *Term
		i int
	}
	st := []fr{{t, 0}}
	for len(st) > 0 {
		f := &st[len(st)-1]
		if f.i < len(f.t.A) {
			a := f.t.A[f.i]
			f.i++
			if a.Op != OpConst && !s.emitted[a.ID] {
				st = append(st, fr{a, 0})
			}
			continue
		}
		x := f.t
		st = st[:len(st)-1]
		if s.emitted[x.ID] {
			continue
		}
		s.emitted[x.ID] = true
		switch x.Op {
		case OpVar:
			if !s.declared[x.Name] {
				s.declared[x.Name] = true
				fmt.Fprintf(&s.buf, "(declare-const %s %s)\n", x.Name, x.S.SMT())
			}
		case OpUF:
			if !s.declared[x.Name] {
				s.declared[x.Name] = true
				var sb strings.Builder
				for i, a := range x.A {
					if i > 0 {
						sb.WriteString(" ")
					}
					sb.WriteString(a.S.SMT())
				}
				fmt.Fprintf(&s.buf, "(declare-fun %s (%s) %s)\n", x.Name, sb.String(), x.S.SMT())
			}
			fmt.Fprintf(&s.buf, "(define-fun t%d () %s %s)\n", x.ID, x.S.SMT(), x.body())
		default:
			fmt.Fprintf(&s.buf, "(define-fun t%d () %s %s)\n", x.ID, x.S.SMT(), x.body())
		}
	}
}

func (s *Solver) syncStack(pc []*Term) {
	n := 0
	for n < len(s.stack) && n < len(pc) && s.stack[n] == pc[n] {
		n++
	}
	if n < len(s.stack) {
		fmt.Fprintf(&s.buf, "(pop %d)\n", len(s.stack)-n)
		s.stack = s.stack[:n]
	}
	for _, p := range pc[n:] {
		s.emit(p)
		fmt.Fprintf(&s.buf, "(push 1)\n(assert %s)\n", p.ref())
		s.stack = append(s.stack, p)
	}
}

const endMarker = "@@END@@"

// roundtrip sends the buffered commands and returns the output lines
func (s *Solver) roundtrip(hard time.Duration) ([]string, bool) {
	fmt.Fprintf(&s.buf, "(echo \"%s\")\n", endMarker)
	txt := s.buf.String()
	s.buf.Reset()
	if s.log != nil {
		io.WriteString(s.log, txt)
	}
	if _, err := io.WriteString(s.in, txt); err != nil {
		return nil, false
	}
	var res []string
	timer := time.NewTimer(hard)
	defer timer.Stop()
	for {
		select {
		case l, ok := <-s.lines:
			if !ok {
				return res, false
			}
			if strings.Contains(l, endMarker) {
				return res, true
			}
			res = append(res, l)
		case <-timer.C:
			return res, false
		}
	}
}

// Check decides satisfiability of pc ∧ extra (extra may be nil).
// Returns "sat" (with model over vars if wanted), "unsat" or "unknown".
func (s *Solver) Check(pc []*Term, extra *Term, vars []*Term, label string) (string, Model) {
	t0 := time.Now()
	s.syncStack(pc)
	if extra != nil {
		s.emit(extra)
		fmt.Fprintf(&s.buf, "(push 1)\n(assert %s)\n", extra.ref())
	}
	s.buf.WriteString("(check-sat)\n")
	lines, ok := s.roundtrip(time.Duration(s.timeoutMs)*time.Millisecond*2 + 5*time.Second)
	res := "unknown"
	if ok {
		for _, l := range lines {
			l = strings.TrimSpace(l)
			if strings.Contains(l, "(error") {
				res = "unknown"
				s.Stats.Errors++
				if s.log != nil {
					fmt.Fprintf(s.log, "; ERROR %s\n", l)
				}
				break
			}
			if l == "sat" || l == "unsat" || l == "unknown" {
				res = l
			}
		}
	}
	var model Model
	if ok && res == "sat" && len(vars) > 0 {
		for _, v := range vars {
			s.emit(v)
		}
		s.buf.WriteString("(get-value (")
		for _, v := range vars {
			s.buf.WriteString(v.ref() + " ")
		}
		s.buf.WriteString("))\n")
		var ml []string
		ml, ok = s.roundtrip(10 * time.Second)
		if ok {
			model = parseModel(strings.Join(ml, " "), vars)
		}
	} else if ok && res == "sat" {
		model = Model{}
	}
	if !ok {
		// solver died or overran its time limit: restart, report unknown
		s.restart()
		res = "unknown"
	} else if extra != nil {
		s.buf.WriteString("(pop 1)\n")
	}
	d := time.Since(t0)
	if s.log != nil {
		fmt.Fprintf(s.log, "; RESULT %s %.3fs depth=%d label=%s\n", res, d.Seconds(), len(s.stack), label)
	}
	s.Stats.Queries++
	s.Stats.Time += d
	if d > s.Stats.Slowest {
		s.Stats.Slowest = d
		s.Stats.SlowLabel = label
	}
	switch res {
	case "sat":
		s.Stats.Sat++
	case "unsat":
		s.Stats.Unsat++
	default:
		s.Stats.Unknown++
	}
	return res, model
}

// OneShot runs the query in a fresh process without push/pop so that z3 can
// use its non-incremental tactics.  Used as a fall-back for queries on which
// the incremental solver answers unknown.
func OneShot(kind SolverKind, timeoutMs int, pc []*Term, extra *Term, vars []*Term, cancel <-chan struct{}) (string, Model, time.Duration) {
	t0 := time.Now()
	s := NewSolver(kind, timeoutMs)
	defer s.Close()
	if cancel != nil {
		done := make(chan struct{})
		defer close(done)
		go func() {
			select {
			case <-cancel:
				if s.cmd != nil && s.cmd.Process != nil {
					s.cmd.Process.Kill()
				}
			case <-done:
			}
		}()
	}
	for _, p := range pc {
		s.emit(p)
		fmt.Fprintf(&s.buf, "(assert %s)\n", p.ref())
	}
	if extra != nil {
		s.emit(extra)
		fmt.Fprintf(&s.buf, "(assert %s)\n", extra.ref())
	}
	s.buf.WriteString("(check-sat)\n")
	lines, ok := s.roundtrip(time.Duration(timeoutMs)*time.Millisecond + 10*time.Second)
	res := "unknown"
	if ok {
		for _, l := range lines {
			l = strings.TrimSpace(l)
			if strings.Contains(l, "(error") {
				return "unknown", nil, time.Since(t0)
			}
			if l == "sat" || l == "unsat" || l == "unknown" {
				res = l
			}
		}
	}
	var model Model
	if ok && res == "sat" {
		model = Model{}
		if len(vars) > 0 {
			for _, v := range vars {
				s.emit(v)
			}
			s.buf.WriteString("(get-value (")
			for _, v := range vars {
				s.buf.WriteString(v.ref() + " ")
			}
			s.buf.WriteString("))\n")
			ml, ok2 := s.roundtrip(10 * time.Second)
			if ok2 {
				model = parseModel(strings.Join(ml, " "), vars)
			}
		}
	}
	return res, model, time.Since(t0)
}

// ---------- model parsing ----------

type sexp struct {
	atom string
	list []*sexp
}

func parseSexp(s string, pos *int) *sexp {
	for *pos < len(s) && (s[*pos] == ' ' || s[*pos] == '\n' || s[*pos] == '\t') {
		*pos++
	}
	if *pos >= len(s) {
		return nil
	}
	if s[*pos] == '(' {
		*pos++
		n := &sexp{list: []*sexp{}}
		for {
			for *pos < len(s) && (s[*pos] == ' ' || s[*pos] == '\n' || s[*pos] == '\t') {
				*pos++
			}
			if *pos >= len(s) {
				return n
			}
			if s[*pos] == ')' {
				*pos++
				return n
			}
			c := parseSexp(s, pos)
			if c == nil {
				return n
			}
			n.list = append(n.list, c)
		}
	}
	st := *pos
	for *pos < len(s) && s[*pos] != ' ' && s[*pos] != '(' && s[*pos] != ')' && s[*pos] != '\n' {
		*pos++
	}
	return &sexp{atom: s[st:*pos]}
}

func bvLit(a string) (uint64, int, bool) {
	if strings.HasPrefix(a, "#x") {
		v, err := strconv.ParseUint(a[2:], 16, 64)
		return v, 4 * (len(a) - 2), err == nil
	}
	if strings.HasPrefix(a, "#b") {
		v, err := strconv.ParseUint(a[2:], 2, 64)
		return v, len(a) - 2, err == nil
	}
	return 0, 0, false
}

func sexpValue(e *sexp) (uint64, bool) {
	if e.list == nil {
		switch e.atom {
		case "true":
			return 1, true
		case "false":
			return 0, true
		}
		if v, _, ok := bvLit(e.atom); ok {
			return v, true
		}
		if v, err := strconv.ParseUint(e.atom, 10, 64); err == nil {
			return v, true
		}
		return 0, false
	}
	l := e.list
	if len(l) == 0 {
		return 0, false
	}
	switch l[0].atom {
	case "fp":
		if len(l) == 4 {
			sgn, _, _ := bvLit(l[1].atom)
			ex, _, _ := bvLit(l[2].atom)
			man, _, _ := bvLit(l[3].atom)
			return sgn<<63 | ex<<52 | man, true
		}
	case "_":
		if len(l) >= 2 {
			switch l[1].atom {
			case "+zero":
				return 0, true
			case "-zero":
				return 1 << 63, true
			case "+oo":
				return 0x7ff0000000000000, true
			case "-oo":
				return 0xfff0000000000000, true
			case "NaN":
				return 0x7ff8000000000001, true
			}
			if strings.HasPrefix(l[1].atom, "bv") {
				v, err := strconv.ParseUint(l[1].atom[2:], 10, 64)
				return v, err == nil
			}
		}
	case "-":
		if len(l) == 2 {
			v, ok := sexpValue(l[1])
			return -v, ok
		}
	}
	return 0, false
}

func parseModel(txt string, vars []*Term) Model {
	m := Model{}
	pos := 0
	root := parseSexp(txt, &pos)
	if root == nil {
		return m
	}
	for i, p := range root.list {
		if len(p.list) != 2 || i >= len(vars) {
			continue
		}
		if v, ok := sexpValue(p.list[1]); ok {
			m[vars[i].Name] = v
		}
	}
	return m
}


// DumpQuery writes a standalone script of pc ∧ extra (for debugging hard queries)
func DumpQuery(path string, pc []*Term, extra *Term) {
	s := &Solver{kind: Z3, emitted: map[int]bool{}, declared: map[string]bool{}}
	for _, p := range pc {
		s.emit(p)
		fmt.Fprintf(&s.buf, "(assert %s)\n", p.ref())
	}
	if extra != nil {
		s.emit(extra)
		fmt.Fprintf(&s.buf, "(assert %s)\n", extra.ref())
	}
	s.buf.WriteString("(check-sat)\n")
	os.WriteFile(path, []byte(s.buf.String()), 0644)
}


// Portfolio runs the query one-shot on several solvers in parallel and
// returns the first definite answer.
func Portfolio(kinds []SolverKind, timeoutMs int, pc []*Term, extra *Term, vars []*Term) (string, Model, SolverKind) {
	type ans struct {
		r string
		m Model
		k SolverKind
	}
	ch := make(chan ans, len(kinds))
	cancel := make(chan struct{})
	for _, k := range kinds {
		go func(k SolverKind) {
			r, m, _ := OneShot(k, timeoutMs, pc, extra, vars, cancel)
			ch <- ans{r, m, k}
		}(k)
	}
	res := ans{r: "unknown"}
	for range kinds {
		a := <-ch
		if a.r == "sat" || a.r == "unsat" {
			res = a
			break
		}
	}
	close(cancel)
	return res.r, res.m, res.k
}
