package main

// Engine intrinsics: trusted models of documented behaviour of functions that
// are not executed as SSA (DESIGN §2.6).  Every intrinsic that is hit is
// recorded and listed in the evidence.

import (
	"go/types"
	"os"
	"path/filepath"
	"strings"

	"golang.org/x/tools/go/ssa"
)

type intrinsicFn func(e *Exec, args []Value, fn *ssa.Function) Value

var intrinsics = map[string]intrinsicFn{}

func reg(name string, f intrinsicFn) { intrinsics[name] = f }

func (e *Exec) modelsPkg() *ssa.Package {
	p := e.prog.pkgs[e.prog.modPath+"/zz_verifmodels"]
	if p == nil {
		e.unsupported("models package not loaded")
	}
	return p
}

func (e *Exec) callModel(name string, args ...Value) Value {
	fn := e.modelsPkg().Func(name)
	if fn == nil {
		e.unsupported("model function " + name + " missing")
	}
	return e.callSSA(fn, args, nil)
}

func (e *Exec) modelType(name string) types.Type {
	return e.modelsPkg().Type(name).Type()
}

func (e *Exec) pkgType(pkg, name string) types.Type {
	p := e.prog.ssa.ImportedPackage(pkg)
	if p == nil {
		e.unsupported("package " + pkg + " not in program")
	}
	m := p.Type(name)
	if m == nil {
		e.unsupported("type " + pkg + "." + name + " not found")
	}
	return m.Type()
}

func (e *Exec) mkError(msg Str) Iface {
	return Iface{t: e.modelType("PlainError"), v: msg}
}

func (e *Exec) mkErrorS(msg string) Iface { return e.mkError(Str{s: msg}) }

// pointer to a named field of the struct p points to
func (e *Exec) fieldPtr(p Ptr, st types.Type, name string) (Ptr, types.Type) {
	s := st.Underlying().(*types.Struct)
	l := e.layout(st)
	for i := 0; i < s.NumFields(); i++ {
		if s.Field(i).Name() == name {
			return Ptr{o: p.o, off: p.off + l.fieldOff[i]}, s.Field(i).Type()
		}
	}
	e.unsupported("field " + name + " not found in " + st.String())
	return Ptr{}, nil
}

func (e *Exec) note(name string) { e.intrUsed[name]++ }

func model(name string) intrinsicFn {
	return func(e *Exec, args []Value, fn *ssa.Function) Value { return e.callModel(name, args...) }
}

func nop(e *Exec, args []Value, fn *ssa.Function) Value {
	return e.zeroResults(fn)
}

func identity(e *Exec, args []Value, fn *ssa.Function) Value { return args[0] }

func init() {
	// ---- bytealg (assembly) ----
	reg("internal/bytealg.IndexByte", model("IndexByte"))
	reg("internal/bytealg.IndexByteString", model("IndexByteString"))
	reg("internal/bytealg.Count", model("Count"))
	reg("internal/bytealg.CountString", model("CountString"))
	reg("internal/bytealg.Index", model("Index"))
	reg("internal/bytealg.IndexString", model("IndexString"))
	reg("internal/bytealg.Equal", model("Equal"))
	reg("internal/bytealg.Compare", model("Compare"))
	reg("internal/bytealg.CompareString", model("CompareString"))
	reg("bytes.IndexByte", model("IndexByte"))
	reg("strings.IndexByte", model("IndexByteString"))
	reg("bytes.Equal", model("Equal"))
	reg("bytes.Compare", model("Compare"))
	reg("strings.Compare", model("CompareString"))
	reg("internal/stringslite.IndexByte", model("IndexByteString"))
	reg("internal/bytealg.MakeNoZero", func(e *Exec, args []Value, fn *ssa.Function) Value {
		n := e.intTerm(args[0])
		return e.makeSlice(types.Typ[types.Uint8], n, n)
	})
	reg("sync.runtime_registerPoolCleanup", nop)
	reg("sync.runtime_notifyListCheck", nop)
	reg("internal/sync.runtime_registerPoolCleanup", nop)
	reg("internal/abi.NoEscape", identity)
	reg("internal/abi.Escape", identity)
	reg("runtime.SetFinalizer", nop)
	reg("runtime.KeepAlive", nop)
	reg("runtime.Gosched", func(e *Exec, args []Value, fn *ssa.Function) Value { e.yield(); return nil })
	reg("runtime.GOMAXPROCS", func(e *Exec, args []Value, fn *ssa.Function) Value { return e.tc.Const(64, 1) })
	reg("internal/race.Acquire", nop)
	reg("internal/race.Release", nop)
	reg("internal/race.ReleaseMerge", nop)
	reg("internal/race.Disable", nop)
	reg("internal/race.Enable", nop)
	reg("internal/race.Read", nop)
	reg("internal/race.Write", nop)
	reg("internal/race.ReadRange", nop)
	reg("internal/race.WriteRange", nop)
	reg("internal/godebug.New", func(e *Exec, args []Value, fn *ssa.Function) Value {
		t := e.pkgType("internal/godebug", "Setting")
		o := e.allocZero(t, "godebug.Setting")
		return Ptr{o: o}
	})
	reg("(*internal/godebug.Setting).Value", func(e *Exec, args []Value, fn *ssa.Function) Value { return Str{} })
	reg("(*internal/godebug.Setting).IncNonDefault", nop)
	reg("(*internal/godebug.Setting).Name", func(e *Exec, args []Value, fn *ssa.Function) Value { return Str{} })

	// ---- os ----
	reg("os.Getenv", func(e *Exec, args []Value, fn *ssa.Function) Value {
		return Str{s: e.env[e.goString(args[0])]}
	})
	reg("os.LookupEnv", func(e *Exec, args []Value, fn *ssa.Function) Value {
		v, ok := e.env[e.goString(args[0])]
		return Tuple{Str{s: v}, e.tc.Bool(ok)}
	})

	readFile := func(e *Exec, args []Value, fn *ssa.Function) Value {
		if e.vfsState != nil {
			p := e.vpath(args[0])
			e.vRecord(p)
			if f := e.vfind(p); f != nil {
				return Tuple{e.newByteSlice(append([]*Term(nil), f.data...)), Iface{}}
			}
			if p.Conc() && strings.HasPrefix(p.s, "/vfs/") {
				return Tuple{Slice{}, e.vfsErr("open", p, "no such file or directory", true)}
			}
		}
		name := e.goString(args[0])
		if !filepath.IsAbs(name) {
			name = filepath.Join(e.cfg.RepoDir, e.cfg.Pkg, name)
		}
		b, err := os.ReadFile(name)
		if err != nil {
			return Tuple{Slice{}, e.mkErrorS(err.Error())}
		}
		e.note("os.ReadFile (real file, read at analysis time): " + name)
		return Tuple{e.newByteSliceFromString(Str{s: string(b)}), Iface{}}
	}
	reg("os.ReadFile", readFile)
	reg("io/ioutil.ReadFile", readFile)

	// ---- go-charset: ISO-8859-1 code page built directly (the registry is JSON + embedded files) ----
	isLatin1 := func(name string) bool {
		n := strings.ToLower(strings.ReplaceAll(name, "_", "-"))
		switch n {
		case "iso-8859-1", "latin1", "latin-1", "iso8859-1", "l1", "ibm819", "cp819", "iso-ir-100", "csisolatin1", "iso-8859-1:1987":
			return true
		}
		return false
	}
	const csPkg = "github.com/paulrosania/go-charset/charset"
	reg(csPkg+".TranslatorFrom", func(e *Exec, args []Value, fn *ssa.Function) Value {
		name := e.goString(args[0])
		if !isLatin1(name) {
			e.unsupported("go-charset model only covers ISO-8859-1, got " + name)
		}
		tt := e.pkgType(csPkg, "translateFromCodePage")
		o := e.allocZero(tt, "translateFromCodePage")
		tab := e.newObj(256, "latin1 byte2rune")
		tab.base = true // read-only table: symbolic lookups use the ROM encoding
		for i := range tab.cells {
			tab.cells[i] = e.tc.Const(32, uint64(i))
		}
		fp, ft := e.fieldPtr(Ptr{o: o}, tt, "byte2rune")
		e.store(fp, ft, Ptr{o: tab})
		return Tuple{Iface{t: types.NewPointer(tt), v: Ptr{o: o}}, Iface{}}
	})
	reg(csPkg+".TranslatorTo", func(e *Exec, args []Value, fn *ssa.Function) Value {
		name := e.goString(args[0])
		if !isLatin1(name) {
			e.unsupported("go-charset model only covers ISO-8859-1, got " + name)
		}
		tt := e.pkgType(csPkg, "translateToCodePage")
		o := e.allocZero(tt, "translateToCodePage")
		it := e.pkgType(csPkg, "toCodePageInfo")
		ip, _ := e.fieldPtr(Ptr{o: o}, tt, "toCodePageInfo")
		sp, st := e.fieldPtr(ip, it, "same")
		e.store(sp, st, e.tc.Const(32, 256))
		mp, mt := e.fieldPtr(ip, it, "rune2byte")
		mtt := mt.Underlying().(*types.Map)
		e.nobj++
		e.store(mp, mt, &MapObj{id: e.nobj, kt: mtt.Key(), vt: mtt.Elem()})
		return Tuple{Iface{t: types.NewPointer(tt), v: Ptr{o: o}}, Iface{}}
	})

	// ---- errors ----
	reg("errors.Is", func(e *Exec, args []Value, fn *ssa.Function) Value {
		return e.tc.Bool(e.errorsIs(args[0].(Iface), args[1].(Iface), 0))
	})
	reg("errors.Unwrap", func(e *Exec, args []Value, fn *ssa.Function) Value {
		err := args[0].(Iface)
		if err.t == nil || !e.hasMethod(err.t, "Unwrap") {
			return Iface{}
		}
		r := e.invoke(err, "Unwrap")
		if i, ok := r.(Iface); ok {
			return i
		}
		return Iface{}
	})
	reg("errors.As", func(e *Exec, args []Value, fn *ssa.Function) Value {
		err := args[0].(Iface)
		target := args[1].(Iface)
		pt, ok := target.t.(*types.Pointer)
		if !ok {
			e.goPanicRuntime("errors: target must be a non-nil pointer")
		}
		tt := pt.Elem()
		for depth := 0; err.t != nil && depth < 20; depth++ {
			match := false
			if it, isI := tt.Underlying().(*types.Interface); isI {
				match = types.Implements(err.t, it)
			} else {
				match = types.Identical(err.t, tt)
			}
			if match {
				if _, isI := tt.Underlying().(*types.Interface); isI {
					e.store(target.v.(Ptr), tt, err)
				} else {
					e.store(target.v.(Ptr), tt, err.v)
				}
				return e.tc.True
			}
			if !e.hasMethod(err.t, "Unwrap") {
				break
			}
			r := e.invoke(err, "Unwrap")
			i, ok := r.(Iface)
			if !ok {
				break
			}
			err = i
		}
		return e.tc.False
	})

	// ---- sync ----
	reg("(*sync.Mutex).Lock", func(e *Exec, args []Value, fn *ssa.Function) Value {
		m := e.mutex(args[0].(Ptr))
		e.block("Mutex.Lock", func() bool { return !m.locked && m.readers == 0 })
		m.locked = true
		return nil
	})
	reg("(*sync.Mutex).TryLock", func(e *Exec, args []Value, fn *ssa.Function) Value {
		m := e.mutex(args[0].(Ptr))
		if m.locked || m.readers > 0 {
			return e.tc.False
		}
		m.locked = true
		return e.tc.True
	})
	reg("(*sync.Mutex).Unlock", func(e *Exec, args []Value, fn *ssa.Function) Value {
		m := e.mutex(args[0].(Ptr))
		if !m.locked {
			e.violation("panic", "sync.Mutex.Unlock", "fatal error: sync: unlock of unlocked mutex")
		}
		m.locked = false
		return nil
	})
	intrinsics["(*sync.RWMutex).Lock"] = intrinsics["(*sync.Mutex).Lock"]
	intrinsics["(*sync.RWMutex).Unlock"] = intrinsics["(*sync.Mutex).Unlock"]
	reg("(*sync.RWMutex).RLock", func(e *Exec, args []Value, fn *ssa.Function) Value {
		m := e.mutex(args[0].(Ptr))
		e.block("RWMutex.RLock", func() bool { return !m.locked })
		m.readers++
		return nil
	})
	reg("(*sync.RWMutex).RUnlock", func(e *Exec, args []Value, fn *ssa.Function) Value {
		m := e.mutex(args[0].(Ptr))
		if m.readers <= 0 {
			e.violation("panic", "sync.RWMutex.RUnlock", "fatal error: sync: RUnlock of unlocked RWMutex")
		}
		m.readers--
		return nil
	})
	reg("(*sync.Once).Do", func(e *Exec, args []Value, fn *ssa.Function) Value {
		p := args[0].(Ptr)
		e.nilCheck(p, "Once.Do")
		done := e.intTerm(e.loadCell(p.o, p.off))
		if done.IsConst() && done.C == 0 {
			e.storeCell(p.o, p.off, e.tc.Const(32, 1))
			e.call(args[1], nil, nil)
		}
		return nil
	})
	reg("(*sync.WaitGroup).Add", func(e *Exec, args []Value, fn *ssa.Function) Value {
		m := e.mutex(args[0].(Ptr))
		m.readers += e.concInt(args[1], "WaitGroup delta")
		if m.readers < 0 {
			e.goPanicValue(Iface{t: types.Typ[types.String], v: Str{s: "sync: negative WaitGroup counter"}})
		}
		return nil
	})
	reg("(*sync.WaitGroup).Done", func(e *Exec, args []Value, fn *ssa.Function) Value {
		m := e.mutex(args[0].(Ptr))
		m.readers--
		if m.readers < 0 {
			e.goPanicValue(Iface{t: types.Typ[types.String], v: Str{s: "sync: negative WaitGroup counter"}})
		}
		return nil
	})
	reg("(*sync.WaitGroup).Wait", func(e *Exec, args []Value, fn *ssa.Function) Value {
		m := e.mutex(args[0].(Ptr))
		e.block("WaitGroup.Wait", func() bool { return m.readers == 0 })
		return nil
	})
	// sync.Pool reuses: Get hands back the most recently Put value (the
	// behaviour under which state leaking through a pooled object shows)
	reg("(*sync.Pool).Get", func(e *Exec, args []Value, fn *ssa.Function) Value {
		p := args[0].(Ptr)
		k := mutexKey{p.o, p.off}
		if st := e.pools[k]; len(st) > 0 {
			v := st[len(st)-1]
			e.pools[k] = st[:len(st)-1]
			return v
		}
		fp, ft := e.fieldPtr(p, e.pkgType("sync", "Pool"), "New")
		f := e.load(fp, ft)
		if _, isNil := f.(FuncNil); isNil {
			return Iface{}
		}
		return e.call(f, nil, nil)
	})
	reg("(*sync.Pool).Put", func(e *Exec, args []Value, fn *ssa.Function) Value {
		p := args[0].(Ptr)
		if v, ok := args[1].(Iface); ok && v.t != nil {
			k := mutexKey{p.o, p.off}
			e.pools[k] = append(e.pools[k], v)
		}
		return nil
	})
	reg("(*sync.Cond).Wait", func(e *Exec, args []Value, fn *ssa.Function) Value {
		p := args[0].(Ptr)
		lp, lt := e.fieldPtr(p, e.pkgType("sync", "Cond"), "L")
		l := e.load(lp, lt).(Iface)
		st := e.mutex(p)
		gen := st.readers
		e.invoke(l, "Unlock")
		e.block("Cond.Wait", func() bool { return st.readers != gen })
		e.invoke(l, "Lock")
		return nil
	})
	reg("(*sync.Cond).Signal", func(e *Exec, args []Value, fn *ssa.Function) Value {
		e.mutex(args[0].(Ptr)).readers++
		return nil
	})
	intrinsics["(*sync.Cond).Broadcast"] = intrinsics["(*sync.Cond).Signal"]

	// ---- sync/atomic ----
	for _, ty := range []string{"Int32", "Int64", "Uint32", "Uint64", "Uintptr", "Pointer"} {
		ty := ty
		for _, pkg := range []string{"sync/atomic.", "internal/runtime/atomic."} {
			reg(pkg+"Load"+ty, func(e *Exec, args []Value, fn *ssa.Function) Value {
				p := args[0].(Ptr)
				e.nilCheck(p, "atomic load")
				return e.loadCell(p.o, p.off)
			})
			reg(pkg+"Store"+ty, func(e *Exec, args []Value, fn *ssa.Function) Value {
				p := args[0].(Ptr)
				e.nilCheck(p, "atomic store")
				e.storeCell(p.o, p.off, args[1])
				return nil
			})
			reg(pkg+"Swap"+ty, func(e *Exec, args []Value, fn *ssa.Function) Value {
				p := args[0].(Ptr)
				e.nilCheck(p, "atomic swap")
				old := e.loadCell(p.o, p.off)
				e.storeCell(p.o, p.off, args[1])
				return old
			})
			reg(pkg+"CompareAndSwap"+ty, func(e *Exec, args []Value, fn *ssa.Function) Value {
				p := args[0].(Ptr)
				e.nilCheck(p, "atomic cas")
				old := e.loadCell(p.o, p.off)
				var eq *Term
				switch o := old.(type) {
				case *Term:
					eq = e.tc.Cmp(OpEq, o, args[1].(*Term))
				case Ptr:
					eq = ptrEqual(e.tc, o, args[1].(Ptr))
				default:
					e.unsupported("atomic CAS on non-scalar")
				}
				if e.branch(eq) {
					e.storeCell(p.o, p.off, args[2])
					return e.tc.True
				}
				return e.tc.False
			})
			if ty != "Pointer" {
				reg(pkg+"Add"+ty, func(e *Exec, args []Value, fn *ssa.Function) Value {
					p := args[0].(Ptr)
					e.nilCheck(p, "atomic add")
					nv := e.tc.Bin(OpAdd, e.intTerm(e.loadCell(p.o, p.off)), e.intTerm(args[1]))
					e.storeCell(p.o, p.off, nv)
					return nv
				})
			}
		}
	}
	reg("(*sync/atomic.Value).Load", func(e *Exec, args []Value, fn *ssa.Function) Value {
		p := args[0].(Ptr)
		return e.loadCell(p.o, p.off)
	})
	reg("(*sync/atomic.Value).Store", func(e *Exec, args []Value, fn *ssa.Function) Value {
		p := args[0].(Ptr)
		e.storeCell(p.o, p.off, args[1])
		return nil
	})
	reg("(*sync/atomic.Value).Swap", func(e *Exec, args []Value, fn *ssa.Function) Value {
		p := args[0].(Ptr)
		old := e.loadCell(p.o, p.off)
		e.storeCell(p.o, p.off, args[1])
		return old
	})
	reg("(*sync/atomic.Value).CompareAndSwap", func(e *Exec, args []Value, fn *ssa.Function) Value {
		p := args[0].(Ptr)
		old := e.loadCell(p.o, p.off).(Iface)
		if e.branch(e.equal(nil, old, args[1])) {
			e.storeCell(p.o, p.off, args[2])
			return e.tc.True
		}
		return e.tc.False
	})

	// ---- log ----
	for _, n := range []string{"Printf", "Println", "Print"} {
		reg("log."+n, nop)
		reg("(*log.Logger)."+n, nop)
	}
	reg("(*log.Logger).Output", nop)
	reg("(*log.Logger).SetOutput", nop)
	reg("(*log.Logger).SetFlags", nop)
	reg("(*log.Logger).SetPrefix", nop)
	reg("log.SetOutput", nop)
	reg("log.SetFlags", nop)
	reg("log.New", func(e *Exec, args []Value, fn *ssa.Function) Value {
		return Ptr{o: e.allocZero(e.pkgType("log", "Logger"), "log.Logger")}
	})
	reg("log.Default", func(e *Exec, args []Value, fn *ssa.Function) Value {
		return Ptr{o: e.allocZero(e.pkgType("log", "Logger"), "log.Logger")}
	})
	for _, n := range []string{"Fatal", "Fatalf", "Fatalln", "Panic", "Panicf", "Panicln"} {
		n := n
		f := func(e *Exec, args []Value, fn *ssa.Function) Value {
			// process exit (Fatal*) or panic (Panic*): raised as a Go-level panic so
			// that a harness may treat it as an expected outcome; unrecovered it is
			// reported as a violation like any other panic
			e.goPanicValue(e.mkErrorS("log." + n + " called (process exit / panic)"))
			return nil
		}
		reg("log."+n, f)
		reg("(*log.Logger)."+n, f)
	}
	reg("os.Exit", func(e *Exec, args []Value, fn *ssa.Function) Value {
		e.violation("panic", "os.Exit", "os.Exit called")
		return nil
	})

	// the assembly block function of MD5: run the package's own pure-Go version
	reg("crypto/md5.block", func(e *Exec, args []Value, fn *ssa.Function) Value {
		g := e.prog.ssa.ImportedPackage("crypto/md5").Func("blockGeneric")
		return e.callSSA(g, args, nil)
	})

	// hash/crc32: no SIMD kernels, the package's own slicing-by-8 Go code runs
	reg("hash/crc32.archAvailableIEEE", func(e *Exec, args []Value, fn *ssa.Function) Value { return e.tc.Bool(false) })
	reg("hash/crc32.update", func(e *Exec, args []Value, fn *ssa.Function) Value {
		return e.callModel("CRC32Update", args[0], args[1], args[2])
	})
	reg("hash/crc32.simpleUpdate", func(e *Exec, args []Value, fn *ssa.Function) Value {
		return e.callModel("CRC32Update", args[0], args[1], args[2])
	})
	reg("hash/crc32.slicingUpdate", func(e *Exec, args []Value, fn *ssa.Function) Value {
		return e.callModel("CRC32Update", args[0], args[1], args[2]) // &tab[0] has the address of tab
	})
	reg("hash/crc32.archAvailableCastagnoli", func(e *Exec, args []Value, fn *ssa.Function) Value { return e.tc.Bool(false) })

	// ---- math ----
	reg("math.Abs", func(e *Exec, args []Value, fn *ssa.Function) Value {
		return e.tc.FUn(OpFAbs, args[0].(*Term))
	})
	reg("math.Float64bits", func(e *Exec, args []Value, fn *ssa.Function) Value {
		t := args[0].(*Term)
		if t.IsConst() {
			return e.tc.Const(64, t.C)
		}
		e.unsupported("math.Float64bits of symbolic float")
		return nil
	})
	reg("math.Float64frombits", func(e *Exec, args []Value, fn *ssa.Function) Value {
		return e.tc.FFromBits(args[0].(*Term))
	})
	reg("math.IsNaN", func(e *Exec, args []Value, fn *ssa.Function) Value {
		return e.tc.FUn(OpFIsNaN, args[0].(*Term))
	})
	for i, n := range []string{"Round", "Floor", "Ceil", "Trunc", "RoundToEven"} {
		mode := uint64(i)
		reg("math."+n, func(e *Exec, args []Value, fn *ssa.Function) Value {
			return e.tc.FRound(args[0].(*Term), mode)
		})
	}

	// ---- reflect-free helpers ----
	reg("internal/reflectlite.TypeOf", func(e *Exec, args []Value, fn *ssa.Function) Value {
		e.unsupported("reflectlite.TypeOf")
		return nil
	})
	reg("internal/itoa.Itoa", func(e *Exec, args []Value, fn *ssa.Function) Value {
		return e.formatInt(e.intTerm(args[0]), true, 10, false)
	})
}

func (e *Exec) md5ID(data []*Term) int {
	for i, c := range e.md5Calls {
		if len(c.arg) != len(data) {
			continue
		}
		same := true
		for j := range data {
			if c.arg[j] != data[j] {
				same = false
				break
			}
		}
		if same {
			return i
		}
	}
	return len(e.md5Calls)
}

type md5Call struct {
	arg []*Term
	out Agg
}

func (e *Exec) errorsIs(err, target Iface, depth int) bool {
	if depth > 20 {
		return false
	}
	if err.t == nil {
		return target.t == nil
	}
	if target.t != nil && types.Comparable(target.t) && types.Identical(err.t, target.t) {
		eq := e.equal(err.t, err.v, target.v)
		if e.branch(eq) {
			return true
		}
	}
	if e.hasMethod(err.t, "Is") {
		if r, ok := e.invoke(err, "Is", target).(*Term); ok && e.branch(r) {
			return true
		}
	}
	if !e.hasMethod(err.t, "Unwrap") {
		return false
	}
	switch r := e.invoke(err, "Unwrap").(type) {
	case Iface:
		if r.t == nil {
			return false
		}
		return e.errorsIs(r, target, depth+1)
	case Slice:
		for i := 0; i < r.len; i++ {
			it := e.loadCell(r.o, r.off+i).(Iface)
			if e.errorsIs(it, target, depth+1) {
				return true
			}
		}
	}
	return false
}

func isSymFn(fn *ssa.Function) bool {
	return strings.HasPrefix(fn.Name(), "sym") && fn.Pkg != nil
}
