package main

// Path exploration by re-execution along decision prefixes (DESIGN §2.5),
// branch feasibility, concretisation, obligations, the sym* API.

import (
	"fmt"
	"os"
	"runtime/debug"
	"sort"
	"strings"
	"time"

	"golang.org/x/tools/go/ssa"
)

type Decision struct {
	Kind byte // 'b' branch, 'v' value, 'x' exclusion set (open)
	B    bool
	V    uint64
	Excl []uint64
}

type WorkItem struct {
	Dec   []Decision
	Model Model
}

type SymRec struct {
	Kind string // byte | int | bool | float | choice
	Term *Term
	Lo   int64
	Hi   int64
}

type Violation struct {
	Kind  string `json:"kind"` // assert | panic | bound | alloc | blocked
	Label string `json:"label"`
	Msg   string `json:"msg"`
	Stack string `json:"stack,omitempty"`
}

type VecEntry struct {
	Kind string `json:"k"`
	V    uint64 `json:"v"`
}

type PathResult struct {
	Status    string            `json:"status"`
	Msg       string            `json:"msg,omitempty"`
	Violation *Violation        `json:"violation,omitempty"`
	Vector    []VecEntry        `json:"vector,omitempty"`
	Reach     []string          `json:"reach,omitempty"`
	Observed  []string          `json:"observed,omitempty"`
	Steps     int64             `json:"steps"`
	Decisions int               `json:"decisions"`
	HasModel  bool              `json:"has_model"`
	Extra     map[string]string `json:"extra,omitempty"`
}

func stackOf() string { return string(debug.Stack()) }

// ---------- model handling ----------

func (e *Exec) setModel(m Model) {
	e.model = m
	if m == nil {
		e.eval = nil
	} else {
		e.eval = NewEvaluator(m)
	}
}

// predict evaluates a term under the current model; ok=false if unknown
func (e *Exec) predict(t *Term) (uint64, bool) {
	if e.eval == nil {
		return 0, false
	}
	e.eval.imprecise = false
	v := e.eval.Eval(t)
	if e.eval.imprecise {
		// drop cached imprecise results
		e.eval = NewEvaluator(e.model)
		return 0, false
	}
	return v, true
}

func (e *Exec) modelVal(t *Term) uint64 {
	if v, ok := e.predict(t); ok {
		return v
	}
	return 0
}

func (e *Exec) query(extra *Term, label string) (string, Model) {
	if e.obligation {
		e.solver.SetTimeout(e.cfg.TimeoutMs)
	} else {
		e.solver.SetTimeout(e.cfg.FeasTimeoutMs)
	}
	res, m := e.solver.Check(e.pc, extra, e.symvars, label)
	if res == "unknown" && e.cfg.DumpUnknown != "" {
		e.stats.Regions += 0
		DumpQuery(fmt.Sprintf("%s-%d-%d.smt2", e.cfg.DumpUnknown, os.Getpid(), e.solver.Stats.Unknown), e.pc, extra)
	}
	if res == "unknown" && e.cfg.OneShotMs > 0 && !e.hunting {
		// fall-back: fresh non-incremental solvers in parallel (portfolio)
		ms := e.cfg.OneShotMs
		if !e.obligation {
			ms = e.cfg.FeasOneShotMs
		}
		if ms > 0 {
			r2, m2, k := Portfolio(e.cfg.FallbackSolvers, ms, e.pc, extra, e.symvars)
			if r2 != "unknown" {
				e.portfolioWins[k.String()]++
				return r2, m2
			}
		}
	}
	return res, m
}

// ---------- branching ----------

func (e *Exec) addPC(t *Term) {
	if t == e.tc.True {
		return
	}
	e.pc = append(e.pc, t)
	e.pcSet[t] = true
	e.noteFixed(t)
}

// noteFixed records variables whose value the path condition pins down
// (conjuncts of the form var == const), so that later conditions over pinned
// variables are decided by evaluation instead of a solver query.
func (e *Exec) noteFixed(t *Term) {
	switch t.Op {
	case OpBAnd:
		e.noteFixed(t.A[0])
		e.noteFixed(t.A[1])
	case OpEq:
		a, b := t.A[0], t.A[1]
		if b.Op == OpVar && a.IsConst() {
			a, b = b, a
		}
		if a.Op == OpVar && b.IsConst() {
			e.fixVar(a, b.C)
		}
	case OpVar:
		if t.S.K == KBool {
			e.fixVar(t, 1)
		}
	case OpBNot:
		if t.A[0].Op == OpVar {
			e.fixVar(t.A[0], 0)
		}
	}
}

func (e *Exec) fixVar(v *Term, val uint64) {
	if _, ok := e.fixedModel[v.Name]; ok {
		return
	}
	e.fixedModel[v.Name] = val
	e.fixedBits = bitsetUnion(e.fixedBits, v.vs)
}

// evalFixed evaluates t when it depends only on pinned variables
func (e *Exec) evalFixed(t *Term) (uint64, bool) {
	if t.uf || len(e.fixedBits) == 0 || !t.vs.subsetOf(e.fixedBits) {
		return 0, false
	}
	return e.fixedEval.Eval(t), true
}

// branch decides a boolean condition on this path (forking if both sides are feasible)
func (e *Exec) branch(c *Term) bool {
	if c.IsConst() {
		return c.C == 1
	}
	if v, ok := e.evalFixed(c); ok {
		return v != 0
	}
	// the condition (or its negation) is literally part of the path condition
	if e.pcSet[c] {
		return true
	}
	if e.pcSet[e.tc.BNot(c)] {
		return false
	}
	if e.inInit {
		e.unsupported("symbolic branch during package initialisation")
	}
	tc := e.tc
	if e.dpos < len(e.decisions) {
		d := e.decisions[e.dpos]
		e.dpos++
		if d.Kind != 'b' {
			panic(&pathAbort{status: "engine-error", msg: "decision kind mismatch during re-execution (non-deterministic replay) at " + e.stackString(4)})
		}
		if d.B {
			e.addPC(c)
		} else {
			e.addPC(tc.BNot(c))
		}
		return d.B
	}
	e.stats.Forks++
	var first bool
	var firstKnown bool
	if v, ok := e.predict(c); ok {
		first, firstKnown = v != 0, true
	}
	cond := func(b bool) *Term {
		if b {
			return c
		}
		return tc.BNot(c)
	}
	if !firstKnown {
		// no usable model: ask for the true side
		r, m := e.query(c, "feasibility")
		switch r {
		case "sat":
			first, firstKnown = true, true
			e.setModel(m)
		case "unsat":
			// only the false side can be feasible; it is, because pc is
			e.decisions = append(e.decisions, Decision{Kind: 'b', B: false})
			e.dpos++
			e.addPC(tc.BNot(c))
			return false
		default:
			// unknown: keep both sides (sound for safety), without a model
			e.uncertain = true
			e.pushAlt(Decision{Kind: 'b', B: false}, nil)
			e.decisions = append(e.decisions, Decision{Kind: 'b', B: true})
			e.dpos++
			e.addPC(c)
			e.setModel(nil)
			return true
		}
	}
	// first side is feasible under the current model; ask about the other one
	r, m := e.query(cond(!first), "feasibility")
	switch r {
	case "sat":
		if os.Getenv("GOSYM_DEBUG_FORK") != "" {
			fmt.Fprintf(os.Stderr, "fork at %s\n", e.stackString(6))
		}
		e.pushAlt(Decision{Kind: 'b', B: !first}, m)
	case "unsat":
	default:
		e.pushAlt(Decision{Kind: 'b', B: !first}, nil)
	}
	e.decisions = append(e.decisions, Decision{Kind: 'b', B: first})
	e.dpos++
	e.addPC(cond(first))
	return first
}

// huntBranch decides an assertion in bug-hunting mode: the violating side is
// explored only if the solver produces a witness; "unknown" is recorded as
// undecided and the assertion is assumed.
func (e *Exec) huntBranch(c *Term, label string) bool {
	if c.IsConst() {
		return c.C == 1
	}
	if v, ok := e.evalFixed(c); ok {
		return v != 0
	}
	if e.pcSet[c] {
		return true
	}
	if e.pcSet[e.tc.BNot(c)] {
		return false
	}
	tc := e.tc
	if e.dpos < len(e.decisions) {
		d := e.decisions[e.dpos]
		e.dpos++
		if d.Kind != 'b' {
			panic(&pathAbort{status: "engine-error", msg: "decision kind mismatch during re-execution (hunt) at " + e.stackString(4)})
		}
		if d.B {
			e.addPC(c)
		} else {
			e.addPC(tc.BNot(c))
		}
		return d.B
	}
	e.stats.Forks++
	e.obligation, e.hunting = true, true
	r, m := e.query(tc.BNot(c), "obligation")
	e.obligation, e.hunting = false, false
	switch r {
	case "sat":
		e.pushAlt(Decision{Kind: 'b', B: false}, m)
	case "unsat":
	default:
		e.note("bug-hunting only: no counterexample within the solver time limit, not proven: " + label)
	}
	e.decisions = append(e.decisions, Decision{Kind: 'b', B: true})
	e.dpos++
	e.addPC(c)
	return true
}

func (e *Exec) pushAlt(d Decision, m Model) {
	dec := make([]Decision, e.dpos, e.dpos+1)
	copy(dec, e.decisions[:e.dpos])
	dec = append(dec, d)
	e.pushWork(&WorkItem{Dec: dec, Model: m})
}

// check: run-time check obligation; the failing side raises a Go panic
func (e *Exec) check(ok *Term, msg string) {
	if ok == e.tc.True {
		return
	}
	e.obligation = true
	r := e.branch(ok)
	e.obligation = false
	if !r {
		e.goPanicRuntime(msg)
	}
}

func (e *Exec) checkMsg(ok *Term, msg func() string) {
	if ok == e.tc.True {
		return
	}
	e.obligation = true
	r := e.branch(ok)
	e.obligation = false
	if !r {
		e.goPanicRuntime(msg())
	}
}

const maxConcretize = 300

// concretize forks over the feasible values of t and returns the one of this path.
// All feasible values are enumerated at the first encounter (solver-guided),
// so that the alternatives can be explored in parallel.
func (e *Exec) concretize(t *Term, what string) uint64 {
	if t.IsConst() {
		return t.C
	}
	if v, ok := e.evalFixed(t); ok {
		return v
	}
	if e.inInit {
		e.unsupported("symbolic value during package initialisation")
	}
	tc := e.tc
	if e.dpos < len(e.decisions) {
		d := e.decisions[e.dpos]
		if d.Kind != 'v' {
			panic(&pathAbort{status: "engine-error", msg: "decision kind mismatch (value) during re-execution at " + e.stackString(4)})
		}
		e.dpos++
		e.addPC(tc.Cmp(OpEq, t, tc.Const(t.S.W, d.V)))
		return d.V
	}
	e.stats.Forks++
	v, ok := e.predict(t)
	if !ok {
		r, m := e.query(nil, "concretize")
		switch r {
		case "sat":
			e.setModel(m)
			v, ok = e.predict(t)
			if !ok {
				e.unsupported("cannot evaluate term under model while concretising (" + what + ")")
			}
		case "unsat":
			panic(&pathAbort{status: "infeasible"})
		default:
			e.unsupported("solver unknown while concretising (" + what + ")")
		}
	}
	// enumerate the other feasible values
	excl := tc.BNot(tc.Cmp(OpEq, t, tc.Const(t.S.W, v)))
	n := 1
	for {
		r, m := e.query(excl, "concretize-alt")
		if r == "unsat" {
			break
		}
		if r != "sat" {
			e.unsupported("solver unknown while enumerating values (" + what + ")")
		}
		ev := NewEvaluator(m)
		x := ev.Eval(t)
		if ev.imprecise {
			e.unsupported("cannot evaluate term under model while enumerating values (" + what + ")")
		}
		n++
		if n == 64 && os.Getenv("GOSYM_DEBUG_CONC") != "" {
			fmt.Fprintf(os.Stderr, "wide concretisation (%s) at %s\n", what, e.stackString(8))
		}
		if n > e.maxConc() {
			e.unsupported(fmt.Sprintf("more than %d feasible values while concretising (%s)", e.maxConc(), what))
		}
		e.pushAlt(Decision{Kind: 'v', V: x}, m)
		excl = tc.BAnd(excl, tc.BNot(tc.Cmp(OpEq, t, tc.Const(t.S.W, x))))
	}
	e.decisions = append(e.decisions, Decision{Kind: 'v', V: v})
	e.dpos++
	e.addPC(tc.Cmp(OpEq, t, tc.Const(t.S.W, v)))
	return v
}

func (e *Exec) maxConc() int {
	if e.cfg.MaxConcretize > 0 {
		return e.cfg.MaxConcretize
	}
	return maxConcretize
}

// choice forks n ways without consulting the solver (fresh nondeterminism)
func (e *Exec) choice(lo, hi int64) int64 {
	if lo == hi {
		return lo
	}
	if e.dpos < len(e.decisions) {
		d := e.decisions[e.dpos]
		e.dpos++
		if d.Kind != 'v' {
			panic(&pathAbort{status: "engine-error", msg: "decision kind mismatch (choice) during re-execution"})
		}
		return int64(d.V)
	}
	e.stats.Forks++
	for v := hi; v > lo; v-- {
		e.pushAlt(Decision{Kind: 'v', V: uint64(v)}, e.model)
	}
	e.decisions = append(e.decisions, Decision{Kind: 'v', V: uint64(lo)})
	e.dpos++
	return lo
}

// ---------- violations ----------

func (e *Exec) recordViolation(kind, label, msg, stack string) {
	e.res.Violation = &Violation{Kind: kind, Label: label, Msg: msg, Stack: stack}
}

func (e *Exec) violation(kind, label, msg string) {
	e.recordViolation(kind, label, msg, e.stackString(12))
	panic(&pathAbort{status: "violation", msg: msg})
}

// ---------- vector extraction ----------

func (e *Exec) buildVector() ([]VecEntry, bool) {
	if e.model == nil {
		r, m := e.query(nil, "final-model")
		if r != "sat" {
			return nil, false
		}
		e.setModel(m)
	}
	ev := NewEvaluator(e.model)
	vec := make([]VecEntry, len(e.symlog))
	for i, s := range e.symlog {
		vec[i] = VecEntry{Kind: s.Kind, V: ev.Eval(s.Term)}
	}
	return vec, true
}

// ---------- one path ----------

func (e *Exec) resetPath() {
	// undo writes to base objects
	for i := len(e.undo) - 1; i >= 0; i-- {
		u := e.undo[i]
		switch {
		case u.m != nil:
			u.m.keys, u.m.vals, u.m.saved = u.mkeys, u.mvals, false
		case u.delRegion != nil:
			rs := u.o.regions[:0]
			for _, r := range u.o.regions {
				if r != u.delRegion {
					rs = append(rs, r)
				}
			}
			u.o.regions = rs
		case u.region != nil:
			u.region.arr = u.oldArr
		default:
			u.o.cells[u.i] = u.old
		}
	}
	e.undo = e.undo[:0]
	e.pc = e.pc[:0]
	e.symlog = nil
	e.symvars = nil
	e.steps = 0
	e.budget = e.cfg.Budget
	e.allocLim = e.cfg.AllocLimit
	e.uncertain = false
	e.threads = nil
	e.cur = nil
	e.killed = false
	e.now = 1_700_000_000_000_000_000
	e.timers = nil
	e.mutexes2 = map[mutexKey]*mutexState{}
	e.pools = map[mutexKey][]Value{}
	e.timerObjs = map[*Obj]*vtimer{}
	e.env = map[string]string{}
	for k, v := range e.cfg.Env {
		e.env[k] = v
	}
	e.ufCount = 0
	e.nativeState = map[string]interface{}{}
	e.md5Calls = nil
	e.vfsState = nil
	e.noMerge = !e.cfg.Merge
	e.pcSet = map[*Term]bool{}
	e.fixedModel = Model{}
	e.fixedBits = nil
	e.fixedEval = NewEvaluator(e.fixedModel)
	e.arrayMode = false
	e.obs = nil
	e.floatArgs = nil
}

func (e *Exec) RunPath(w *WorkItem, harness *ssa.Function) *PathResult {
	e.resetPath()
	e.decisions = append([]Decision(nil), w.Dec...)
	e.dpos = 0
	e.setModel(w.Model)
	if w.Model == nil && len(w.Dec) == 0 {
		e.setModel(Model{})
	}
	e.res = &PathResult{}
	e.done = make(chan *pathAbort, 1)
	t0 := &thread{id: 0, wake: make(chan struct{}, 1), what: "main"}
	e.threads = []*thread{t0}
	e.thWG.Add(1)
	go e.threadMain(t0, harness, nil)
	t0.wake <- struct{}{}
	var a *pathAbort
	select {
	case a = <-e.done:
	case <-time.After(time.Duration(e.cfg.PathTimeoutS) * time.Second):
		a = &pathAbort{status: "engine-error", msg: "path wall-clock timeout"}
		e.killed = true
	}
	// release the other coroutines and wait until every one of them is gone
	e.killed = true
	e.pathAbortFlag = 1
	for _, t := range e.threads {
		select {
		case t.wake <- struct{}{}:
		default:
		}
	}
	e.thWG.Wait()
	e.pathAbortFlag = 0
	e.stats.Paths++
	res := e.res
	res.Status, res.Msg = a.status, a.msg
	res.Steps = e.steps
	res.Decisions = len(e.decisions)
	if a.status == "blocked" && res.Violation == nil {
		res.Violation = &Violation{Kind: "blocked", Label: "deadlock", Msg: a.msg}
	}
	if a.status != "infeasible" {
		if vec, ok := e.buildVector(); ok {
			res.Vector, res.HasModel = vec, true
			res.Observed = e.renderObs(NewEvaluator(e.model))
		}
	}
	sort.Strings(res.Reach)
	return res
}

// ---------- sym API (intercepted harness functions) ----------

func (e *Exec) newSym(kind string, s Sort) *Term {
	name := fmt.Sprintf("s%d_%s", len(e.symlog), strings.ToLower(kind))
	t := e.tc.Var(name, s)
	e.symlog = append(e.symlog, SymRec{Kind: kind, Term: t})
	e.symvars = append(e.symvars, t)
	return t
}

func (e *Exec) symIntercept(name string, args []Value) (Value, bool) {
	tc := e.tc
	switch name {
	case "symByte":
		return e.newSym("byte", BV(8)), true
	case "symBool":
		return e.newSym("bool", SBool), true
	case "symUint16":
		return e.newSym("u16", BV(16)), true
	case "symUint32":
		return e.newSym("u32", BV(32)), true
	case "symInt32":
		return e.newSym("i32", BV(32)), true
	case "symUint64":
		return e.newSym("u64", BV(64)), true
	case "symInt64":
		return e.newSym("i64", BV(64)), true
	case "symFloat64":
		return e.newSym("f64", SFP), true
	case "symBytes":
		n := e.concInt(args[0], "symBytes length")
		b := make([]*Term, n)
		for i := range b {
			b[i] = e.newSym("byte", BV(8))
		}
		return e.newByteSlice(b), true
	case "symString":
		n := e.concInt(args[0], "symString length")
		b := make([]*Term, n)
		for i := range b {
			b[i] = e.newSym("byte", BV(8))
		}
		return mkStr(b), true
	case "symInt":
		// concrete choice in [lo,hi] (forks without solver)
		lo, hi := int64(e.concInt(args[0], "symInt lo")), int64(e.concInt(args[1], "symInt hi"))
		if hi < lo {
			panic(&pathAbort{status: "infeasible"})
		}
		if hi-lo > 4096 {
			e.unsupported("symInt range too large; use symInt64 + symAssume")
		}
		v := e.choice(lo, hi)
		c := tc.Const(64, uint64(v))
		e.symlog = append(e.symlog, SymRec{Kind: "int", Term: c})
		return c, true
	case "symAssume":
		c := e.boolTerm(args[0])
		if c == tc.True {
			return nil, true
		}
		if c == tc.False {
			panic(&pathAbort{status: "infeasible"})
		}
		if v, ok := e.evalFixed(c); ok {
			if v == 0 {
				panic(&pathAbort{status: "infeasible"})
			}
			return nil, true
		}
		// an assumption is a branch whose false side is discarded
		if e.dpos < len(e.decisions) {
			e.addPC(c)
			return nil, true
		}
		if v, ok := e.predict(c); ok && v != 0 {
			e.addPC(c)
			return nil, true
		}
		r, m := e.query(c, "assume")
		switch r {
		case "sat":
			e.setModel(m)
		case "unsat":
			panic(&pathAbort{status: "infeasible"})
		default:
			e.uncertain = true
			e.setModel(nil)
		}
		e.addPC(c)
		return nil, true
	case "symAssert":
		c := e.boolTerm(args[0])
		label := e.goString(args[1])
		e.res.Extra = nil
		e.nAsserts++
		e.obligation = true
		holds := e.branch(c)
		e.obligation = false
		if !holds {
			e.violation("assert", label, "assertion failed: "+label)
		}
		return nil, true
	case "symAssertHunt":
		c := e.boolTerm(args[0])
		label := e.goString(args[1])
		e.res.Extra = nil
		e.nAsserts++
		if !e.huntBranch(c, label) {
			e.violation("assert", label, "assertion failed: "+label)
		}
		return nil, true
	case "symFmtFloatCount":
		return tc.Const(64, uint64(len(e.floatArgs))), true
	case "symReach":
		label := e.goString(args[0])
		for _, r := range e.res.Reach {
			if r == label {
				return nil, true
			}
		}
		e.res.Reach = append(e.res.Reach, label)
		return nil, true
	case "symObserveInt", "symObserveStr", "symObserveBool":
		e.obs = append(e.obs, obsRec{label: e.goString(args[0]), v: args[1]})
		return nil, true
	case "symBudget":
		e.budget = int64(e.concInt(args[0], "budget"))
		return nil, true
	case "symLimitAlloc":
		e.allocLim = e.concInt(args[0], "alloc limit")
		return nil, true
	case "symSetenv":
		e.env[e.goString(args[0])] = e.goString(args[1])
		return nil, true
	case "symUF16":
		name := e.goString(args[0])
		e.note("uninterpreted function " + name)
		return tc.UF("uf_"+name, BV(16), e.intTerm(args[1]), e.intTerm(args[2])), true
	case "symFmtFloat":
		i := e.concInt(args[0], "float argument index")
		if i < 0 || i >= len(e.floatArgs) {
			e.unsupported("symFmtFloat: no such recorded float argument")
		}
		return e.floatArgs[i], true
	case "symFmtFloatReset":
		e.floatArgs = nil
		return nil, true
	case "symFSCrashAt":
		e.fs().crashAt = e.concInt(args[0], "crash point")
		return nil, true
	case "symFSFailAt":
		e.fs().failAt = e.concInt(args[0], "fault point")
		return nil, true
	case "symFSOps":
		return tc.Const(64, uint64(e.fs().ops)), true
	case "symFSPathCount":
		return tc.Const(64, uint64(len(e.fs().paths))), true
	case "symFSPath":
		i := e.concInt(args[0], "path index")
		return e.fs().paths[i], true
	case "symMerge":
		e.noMerge = e.boolTerm(args[0]) != tc.True
		return nil, true
	case "symArrayMode":
		e.arrayMode = e.boolTerm(args[0]) == tc.True
		return nil, true
	case "symParam":
		name := e.goString(args[0])
		if v, ok := e.cfg.Params[name]; ok {
			return tc.Const(64, uint64(int64(v))), true
		}
		return args[1], true
	case "symIsConcrete":
		// true when running natively; false under the engine
		return tc.False, true
	case "symEngine":
		return tc.True, true
	case "symNow":
		return tc.Const(64, uint64(e.now)), true
	case "symAdvance":
		e.now += int64(e.concInt(args[0], "advance"))
		return nil, true
	case "symYield":
		e.yield()
		return nil, true
	case "symMakeSymbolicIndexable":
		return nil, true
	}
	return nil, false
}

type obsRec struct {
	label string
	v     Value
}

func (e *Exec) renderObs(ev *Evaluator) []string {
	var out []string
	for _, o := range e.obs {
		switch x := o.v.(type) {
		case *Term:
			v := ev.Eval(x)
			if x.S.K == KBool {
				out = append(out, fmt.Sprintf("%s=%v", o.label, v != 0))
			} else {
				out = append(out, fmt.Sprintf("%s=%d", o.label, sx(v, x.S.W)))
			}
		case Str:
			b := make([]byte, x.Len())
			for i := range b {
				b[i] = byte(ev.Eval(x.At(e.tc, i)))
			}
			out = append(out, fmt.Sprintf("%s=%q", o.label, string(b)))
		default:
			out = append(out, fmt.Sprintf("%s=<%T>", o.label, o.v))
		}
	}
	return out
}
