package main

// Coroutines, channels, select, virtual clock (DESIGN §2.7).
// Exactly one cooperative, deterministic schedule is executed.

import (
	"fmt"
	"go/types"
	"sort"

	"golang.org/x/tools/go/ssa"
)

type thread struct {
	id    int
	wake  chan struct{}
	done  bool
	ready func() bool // non-nil while blocked
	top   *frame
	depth int
	what  string
}

type vtimer struct {
	when   int64
	seq    int
	fire   func()
	active bool
	period int64
	ch     *ChanObj
}

// spawn a new coroutine running fn(args)
func (e *Exec) spawn(fn Value, args []Value) {
	t := &thread{id: len(e.threads), wake: make(chan struct{}, 1), what: fmt.Sprint(fnName(fn))}
	e.threads = append(e.threads, t)
	e.thWG.Add(1)
	go e.threadMain(t, fn, args)
}

func fnName(fn Value) string {
	switch f := fn.(type) {
	case *ssa.Function:
		return f.String()
	case *Closure:
		return f.fn.String()
	case *NativeFn:
		return f.name
	}
	return fmt.Sprintf("%T", fn)
}

func (e *Exec) threadMain(t *thread, fn Value, args []Value) {
	defer e.thWG.Done()
	<-t.wake
	if e.killed {
		return
	}
	defer func() {
		r := recover()
		if r == nil {
			// normal completion
			t.done = true
			if t.id == 0 {
				e.finish(&pathAbort{status: "ok"})
				return
			}
			e.handoff(t)
			return
		}
		switch x := r.(type) {
		case threadKill:
			return
		case *pathAbort:
			e.finish(x)
		case *goPanic:
			// unrecovered Go panic: the process would die
			e.recordViolation("panic", x.site, x.msg, x.stack)
			e.finish(&pathAbort{status: "violation", msg: x.msg})
		default:
			e.finish(&pathAbort{status: "engine-error", msg: fmt.Sprintf("%v\n%s", r, stackOf())})
		}
	}()
	e.cur = t
	e.call(fn, args, nil)
}

// finish ends the path; called by the thread that holds the baton
func (e *Exec) finish(a *pathAbort) {
	if e.killed {
		return
	}
	e.killed = true
	e.done <- a
}

// handoff gives the baton to some other runnable thread (called by a finished thread)
func (e *Exec) handoff(from *thread) {
	for {
		if next := e.pickReady(from); next != nil {
			e.cur = next
			next.ready = nil
			next.wake <- struct{}{}
			return
		}
		if !e.fireNextTimer() {
			e.finish(&pathAbort{status: "blocked", msg: "all goroutines are blocked (main did not return): " + e.blockedSummary()})
			return
		}
	}
}

func (e *Exec) blockedSummary() string {
	s := ""
	for _, t := range e.threads {
		if !t.done {
			s += fmt.Sprintf("[g%d %s]", t.id, t.what)
		}
	}
	return s
}

func (e *Exec) pickReady(except *thread) *thread {
	n := len(e.threads)
	start := 0
	if except != nil {
		start = except.id + 1
	}
	for k := 0; k < n; k++ {
		t := e.threads[(start+k)%n]
		if t == except || t.done {
			continue
		}
		if t.ready == nil || t.ready() {
			return t
		}
	}
	return nil
}

// block suspends the current thread until ready() holds.
func (e *Exec) block(what string, ready func() bool) {
	if ready() {
		return
	}
	t := e.cur
	t.ready = ready
	if t.top != nil {
		t.what = what + " in " + t.top.fn.String()
	}
	for {
		if ready() {
			t.ready = nil
			return
		}
		if next := e.pickReady(t); next != nil {
			e.cur = next
			next.ready = nil
			next.wake <- struct{}{}
			<-t.wake
			if e.killed {
				panic(threadKill{})
			}
			e.cur = t
			continue
		}
		if !e.fireNextTimer() {
			panic(&pathAbort{status: "blocked", msg: "deadlock: all goroutines blocked: " + e.blockedSummary()})
		}
	}
}

// yield lets every other runnable thread run once
func (e *Exec) yield() {
	t := e.cur
	if next := e.pickReady(t); next != nil {
		t.ready = func() bool { return true }
		e.cur = next
		next.ready = nil
		next.wake <- struct{}{}
		<-t.wake
		if e.killed {
			panic(threadKill{})
		}
		e.cur = t
		t.ready = nil
	}
}

// ---------- virtual time ----------

func (e *Exec) addTimer(d int64, period int64, fire func()) *vtimer {
	if d < 0 {
		d = 0
	}
	e.ufCount++
	t := &vtimer{when: e.now + d, seq: e.ufCount, fire: fire, active: true, period: period}
	e.timers = append(e.timers, t)
	return t
}

func (e *Exec) fireNextTimer() bool {
	var live []*vtimer
	for _, t := range e.timers {
		if t.active {
			live = append(live, t)
		}
	}
	e.timers = live
	if len(live) == 0 {
		return false
	}
	sort.SliceStable(live, func(i, j int) bool {
		if live[i].when != live[j].when {
			return live[i].when < live[j].when
		}
		return live[i].seq < live[j].seq
	})
	t := live[0]
	if t.when > e.now {
		e.now = t.when
	}
	if t.period > 0 {
		t.when += t.period
	} else {
		t.active = false
	}
	t.fire()
	return true
}

// ---------- channels ----------

func (e *Exec) chanSend(ch *ChanObj, v Value) {
	if ch == nil {
		e.block("send on nil channel", func() bool { return false })
	}
	if ch.closed {
		e.goPanicRuntime("send on closed channel")
	}
	v = e.copyVal(v)
	if ch.cap > 0 {
		e.block("chan send", func() bool { return len(ch.buf) < ch.cap || ch.closed })
		if ch.closed {
			e.goPanicRuntime("send on closed channel")
		}
		ch.buf = append(ch.buf, v)
		return
	}
	req := &sendReq{v: v}
	ch.sendq = append(ch.sendq, req)
	e.block("chan send", func() bool { return req.taken || ch.closed })
	if !req.taken {
		e.goPanicRuntime("send on closed channel")
	}
}

func (e *Exec) chanTryRecv(ch *ChanObj) (Value, bool, bool) { // value, ok, ready
	if len(ch.buf) > 0 {
		v := ch.buf[0]
		ch.buf = ch.buf[1:]
		return v, true, true
	}
	if len(ch.sendq) > 0 {
		r := ch.sendq[0]
		ch.sendq = ch.sendq[1:]
		r.taken = true
		return r.v, true, true
	}
	if ch.closed {
		return e.zero(ch.et), false, true
	}
	return nil, false, false
}

func (e *Exec) chanRecv(ch *ChanObj) (Value, bool) {
	if ch == nil {
		e.block("receive from nil channel", func() bool { return false })
	}
	ch.recvWaiters++
	e.block("chan receive", func() bool { return len(ch.buf) > 0 || len(ch.sendq) > 0 || ch.closed })
	ch.recvWaiters--
	v, ok, _ := e.chanTryRecv(ch)
	return v, ok
}

func (e *Exec) chanClose(ch *ChanObj) {
	if ch == nil {
		e.goPanicRuntime("close of nil channel")
	}
	if ch.closed {
		e.goPanicRuntime("close of closed channel")
	}
	ch.closed = true
}

func (e *Exec) selectOp(fr *frame, in *ssa.Select) Value {
	type st struct {
		ch   *ChanObj
		send bool
		v    Value
	}
	states := make([]st, len(in.States))
	for i, s := range in.States {
		ch, _ := e.get(fr, s.Chan).(*ChanObj)
		states[i] = st{ch: ch, send: s.Dir == types.SendOnly}
		if states[i].send {
			states[i].v = e.get(fr, s.Send)
		}
	}
	readyIdx := func() int {
		for i, s := range states {
			if s.ch == nil {
				continue
			}
			if s.send {
				if s.ch.closed || (s.ch.cap > 0 && len(s.ch.buf) < s.ch.cap) || (s.ch.cap == 0 && s.ch.recvWaiters > 0) {
					return i
				}
			} else if len(s.ch.buf) > 0 || len(s.ch.sendq) > 0 || s.ch.closed {
				return i
			}
		}
		return -1
	}
	idx := readyIdx()
	if idx < 0 {
		if !in.Blocking {
			return e.selectResult(in, -1, nil, false)
		}
		for _, s := range states {
			if s.ch != nil && !s.send {
				s.ch.recvWaiters++
			}
		}
		e.block("select", func() bool { return readyIdx() >= 0 })
		for _, s := range states {
			if s.ch != nil && !s.send {
				s.ch.recvWaiters--
			}
		}
		idx = readyIdx()
	}
	s := states[idx]
	if s.send {
		if s.ch.closed {
			e.goPanicRuntime("send on closed channel")
		}
		if s.ch.cap > 0 {
			s.ch.buf = append(s.ch.buf, e.copyVal(s.v))
		} else {
			// a receiver is waiting: hand the value over through the send queue
			s.ch.sendq = append(s.ch.sendq, &sendReq{v: e.copyVal(s.v)})
		}
		return e.selectResult(in, idx, nil, false)
	}
	v, ok, _ := e.chanTryRecv(s.ch)
	return e.selectResult(in, idx, v, ok)
}

func (e *Exec) selectResult(in *ssa.Select, idx int, v Value, ok bool) Value {
	res := Tuple{e.tc.Const(64, uint64(int64(idx))), e.tc.Bool(ok)}
	for i, s := range in.States {
		if s.Dir == types.RecvOnly {
			if i == idx {
				res = append(res, v)
			} else {
				res = append(res, e.zero(s.Chan.Type().Underlying().(*types.Chan).Elem()))
			}
		}
	}
	return res
}

// ---------- mutexes ----------

type mutexState struct {
	locked  bool
	readers int
}

func (e *Exec) mutex(p Ptr) *mutexState {
	if p.o == nil {
		e.goPanicRuntime("invalid memory address or nil pointer dereference (mutex)")
	}
	// key on the object + offset through a per-object map
	k := mutexKey{p.o, p.off}
	m, ok := e.mutexes2[k]
	if !ok {
		m = &mutexState{}
		e.mutexes2[k] = m
	}
	return m
}

type mutexKey struct {
	o   *Obj
	off int
}
