package main

// The symbolic executor: frames, instruction semantics (DESIGN §2, App. A).

import (
	"fmt"
	"go/constant"
	"go/token"
	"go/types"
	"math"
	"strings"
	"sync"
	"sync/atomic"
	"time"
	"unicode/utf8"

	"golang.org/x/tools/go/ssa"
)

// ---------- shared, read-only program ----------

type fnInfo struct {
	reg   map[ssa.Value]int
	nregs int
}

type Program struct {
	ssa     *ssa.Program
	fset    *token.FileSet
	pkgs    map[string]*ssa.Package
	mu      sync.Mutex
	infos   map[*ssa.Function]*fnInfo
	merges  map[*ssa.BasicBlock]*mergeInfo
	modPath string // module path of the code under test
	stubs   map[string]*ssa.Function // callee full name -> harness stub
	initOK  func(path string) bool
}

func (p *Program) info(fn *ssa.Function) *fnInfo {
	p.mu.Lock()
	defer p.mu.Unlock()
	if fi, ok := p.infos[fn]; ok {
		return fi
	}
	fi := &fnInfo{reg: map[ssa.Value]int{}}
	add := func(v ssa.Value) {
		fi.reg[v] = fi.nregs
		fi.nregs++
	}
	for _, p := range fn.Params {
		add(p)
	}
	for _, fv := range fn.FreeVars {
		add(fv)
	}
	for _, b := range fn.Blocks {
		for _, in := range b.Instrs {
			if v, ok := in.(ssa.Value); ok {
				add(v)
			}
		}
	}
	p.infos[fn] = fi
	return fi
}

// ---------- per-worker executor ----------

type undoRec struct {
	o         *Obj
	i         int
	old       Value
	region    *Region
	oldArr    *Term
	delRegion *Region
	m         *MapObj
	mkeys     []Value
	mvals     []Value
}

type deferred struct {
	fn   Value
	args []Value
	inst *ssa.Defer
}

type frame struct {
	fn        *ssa.Function
	info      *fnInfo
	regs      []Value
	block     *ssa.BasicBlock
	prev      *ssa.BasicBlock
	defers    []*deferred
	result    Value
	panicking bool
	panicVal  *goPanic
	caller    *frame
	curInstr  ssa.Instruction
	status    int
	count     *int
	mergedPhis bool
}

type goPanic struct {
	v     Value // interface value
	msg   string
	site  string
	stack string
}

type pathAbort struct {
	status string // ok | infeasible | violation | budget | unsupported | blocked
	msg    string
}

type threadKill struct{}

type ExecStats struct {
	Steps   int64
	Paths   int
	Forks   int
	Regions int
	Merges  int
}

type Exec struct {
	prog    *Program
	tc      *TermCtx
	solver  *Solver
	cfg     *RunConfig
	layouts map[types.Type]*layout
	consts  map[*ssa.Const]Value
	globals map[*ssa.Global]*Obj
	inited  map[*ssa.Package]bool
	initDone    map[*ssa.Package]bool
	initRunning map[*ssa.Package]bool
	inInit  bool
	nobj    int
	undo    []undoRec
	stats   ExecStats
	funcs   map[*ssa.Function]*int // functions executed -> instruction count

	// per path
	pc        []*Term
	model     Model
	eval      *Evaluator
	decisions []Decision
	dpos      int
	symlog    []SymRec
	symvars   []*Term
	steps     int64
	budget    int64
	allocLim  int
	res       *PathResult
	uncertain bool
	strict    bool

	// threads
	threads []*thread
	cur     *thread
	killed  bool
	done    chan *pathAbort
	now     int64
	timers  []*vtimer
	nchan   int

	// environment models
	env         map[string]string
	mutexes2    map[mutexKey]*mutexState
	pools       map[mutexKey][]Value
	timerObjs   map[*Obj]*vtimer
	ufCount     int
	intrUsed    map[string]int
	nativeState map[string]interface{}
	nAsserts    int
	md5Calls    []md5Call
	floatArgs   []*Term
	recordFloats bool
	obs         []obsRec
	arrayMode   bool
	hunting     bool // inside a bug-hunting obligation: no portfolio fall-back
	obligation  bool
	vfsState    *vfs
	noMerge     bool
	portfolioWins map[string]int
	pcSet       map[*Term]bool
	thWG        sync.WaitGroup
	pathAbortFlag int32
	fixedModel  Model
	fixedBits   bitset
	fixedEval   *Evaluator
	busy        time.Duration
	stopFlag    *int32

	pushWork func(w *WorkItem)
}

func (e *Exec) unsupported(msg string) {
	panic(&pathAbort{status: "unsupported", msg: msg + e.where()})
}

func (e *Exec) where() string {
	if e.cur == nil || e.cur.top == nil {
		return ""
	}
	return " at " + e.stackString(6)
}

func (e *Exec) stackString(n int) string {
	var sb strings.Builder
	for fr := e.cur.top; fr != nil && n > 0; fr = fr.caller {
		if sb.Len() > 0 {
			sb.WriteString(" <- ")
		}
		sb.WriteString(fr.fn.String())
		if fr.curInstr != nil {
			if pos := fr.curInstr.Pos(); pos.IsValid() {
				p := e.prog.fset.Position(pos)
				fmt.Fprintf(&sb, ":%d", p.Line)
			}
		}
		n--
	}
	return sb.String()
}

func (e *Exec) siteOf(fr *frame) string {
	if fr == nil {
		return ""
	}
	s := fr.fn.String()
	return s
}

// ---------- constants / operands ----------

func (e *Exec) constValue(c *ssa.Const) Value {
	if v, ok := e.consts[c]; ok {
		return v
	}
	v := e.constValue1(c)
	e.consts[c] = v
	return v
}

func (e *Exec) constValue1(c *ssa.Const) Value {
	t := c.Type()
	if c.Value == nil {
		return e.zero(t)
	}
	if tp, ok := t.(*types.TypeParam); ok {
		e.unsupported("constant of type parameter " + tp.String())
	}
	switch u := t.Underlying().(type) {
	case *types.Basic:
		switch {
		case u.Info()&types.IsBoolean != 0:
			return e.tc.Bool(constant.BoolVal(c.Value))
		case u.Info()&types.IsString != 0:
			return Str{s: constant.StringVal(c.Value)}
		case u.Info()&types.IsInteger != 0:
			s, signed, _ := basicSort(u)
			if signed {
				return e.tc.Const(s.W, uint64(c.Int64()))
			}
			return e.tc.Const(s.W, c.Uint64())
		case u.Info()&types.IsFloat != 0:
			f := c.Float64()
			if u.Kind() == types.Float32 {
				f = float64(float32(f))
			}
			return e.tc.FConst(f)
		}
	case *types.Interface:
		// constant converted to interface (generics); rare
	}
	e.unsupported("constant of type " + t.String())
	return nil
}

func (e *Exec) get(fr *frame, v ssa.Value) Value {
	switch v := v.(type) {
	case *ssa.Const:
		return e.constValue(v)
	case *ssa.Global:
		return Ptr{o: e.globalObj(v)}
	case *ssa.Function:
		return v
	case *ssa.Builtin:
		return v
	}
	i, ok := fr.info.reg[v]
	if !ok {
		e.unsupported(fmt.Sprintf("unknown SSA value %s in %s", v.Name(), fr.fn))
	}
	r := fr.regs[i]
	if r == nil {
		e.unsupported(fmt.Sprintf("read of unset register %s in %s", v.Name(), fr.fn))
	}
	return r
}

func (e *Exec) globalObj(g *ssa.Global) *Obj {
	if o, ok := e.globals[g]; ok {
		return o
	}
	// globals are allocated lazily but always belong to the base state
	save := e.inInit
	e.inInit = true
	o := e.allocZero(g.Type().(*types.Pointer).Elem(), "global "+g.String())
	e.inInit = save
	e.globals[g] = o
	if g.Pkg != nil {
		e.ensureInit(g.Pkg)
	}
	return o
}

// run a package initialiser (once per worker; effects belong to the base state)
func (e *Exec) ensureInit(pkg *ssa.Package) {
	if e.inited[pkg] {
		return
	}
	e.inited[pkg] = true
	if !e.prog.initOK(pkg.Pkg.Path()) {
		e.initDone[pkg] = true
		return
	}
	initFn := pkg.Func("init")
	if initFn == nil || initFn.Blocks == nil {
		return
	}
	saveInit, savePC, saveStrict := e.inInit, e.pc, e.strict
	e.inInit = true
	saveSteps, saveBudget := e.steps, e.budget
	e.budget = 1 << 40
	e.callFunction(initFn, nil, nil, nil)
	e.inInit, e.pc, e.strict = saveInit, savePC, saveStrict
	e.steps, e.budget = saveSteps, saveBudget
}

// ---------- run one function ----------

const (
	kNext = iota
	kJump
	kReturn
)

func (e *Exec) callSSA(fn *ssa.Function, args []Value, env []Value) (result Value) {
	if fn.Blocks == nil {
		e.unsupported("call of external function without model: " + fn.String())
	}
	if fn.Pkg != nil && !e.inited[fn.Pkg] {
		e.ensureInit(fn.Pkg)
	}
	fi := e.prog.info(fn)
	fr := &frame{fn: fn, info: fi, regs: make([]Value, fi.nregs), caller: e.cur.top}
	copy(fr.regs, args)
	copy(fr.regs[len(fn.Params):], env)
	if len(args) != len(fn.Params) {
		e.unsupported(fmt.Sprintf("arity mismatch calling %s: %d args, %d params", fn, len(args), len(fn.Params)))
	}
	e.cur.top = fr
	e.cur.depth++
	if e.cur.depth > 400 {
		e.violation("bound", "call depth > 400", "recursion depth bound exceeded in "+fn.String())
	}
	fr.count = e.funcs[fn]
	if fr.count == nil {
		fr.count = new(int)
		e.funcs[fn] = fr.count
	}
	th := e.cur
	defer func() {
		th.depth--
		if fr.status == 1 { // normal return
			th.top = fr.caller
			return
		}
		r := recover()
		gp, ok := r.(*goPanic)
		if !ok {
			panic(r) // engine-level abort: propagate untouched
		}
		// a Go panic is unwinding through this frame
		fr.panicking = true
		fr.panicVal = gp
		fr.status = 2
		th.top = fr
		e.runDefersPanicking(fr)
		if fr.panicking {
			th.top = fr.caller
			panic(fr.panicVal)
		}
		// recovered
		if fn.Recover != nil {
			fr.block, fr.prev = fn.Recover, nil
			fr.status = 0
			e.runBlocks(fr)
		}
		th.top = fr.caller
		result = fr.result
		if result == nil {
			// function without named results: zero values
			result = e.zeroResults(fn)
		}
	}()
	fr.block = fn.Blocks[0]
	e.runBlocks(fr)
	fr.status = 1
	return fr.result
}

func (e *Exec) zeroResults(fn *ssa.Function) Value {
	res := fn.Signature.Results()
	switch res.Len() {
	case 0:
		return nil
	case 1:
		return e.zero(res.At(0).Type())
	}
	t := make(Tuple, res.Len())
	for i := range t {
		t[i] = e.zero(res.At(i).Type())
	}
	return t
}

func (e *Exec) runBlocks(fr *frame) {
	for {
		blk := fr.block
		n := int64(len(blk.Instrs))
		e.steps += n
		e.stats.Steps += n
		*fr.count += int(n)
		if e.pathAbortFlag != 0 {
			panic(threadKill{})
		}
		if e.stopFlag != nil && atomic.LoadInt32(e.stopFlag) != 0 {
			panic(&pathAbort{status: "stopped", msg: "run stopped (limit reached)"})
		}
		if e.steps > e.budget {
			e.violation("bound", "instruction budget", fmt.Sprintf("instruction budget %d exceeded (unwinding bound) in %s", e.budget, fr.fn))
		}
	instrs:
		for _, in := range blk.Instrs {
			if fr.mergedPhis {
				if _, isPhi := in.(*ssa.Phi); !isPhi {
					fr.mergedPhis = false
				}
			}
			fr.curInstr = in
			switch e.visit(fr, in) {
			case kReturn:
				return
			case kJump:
				break instrs
			}
		}
	}
}

func (e *Exec) set(fr *frame, v ssa.Value, x Value) {
	fr.regs[fr.info.reg[v]] = x
}

func (e *Exec) visit(fr *frame, in ssa.Instruction) int {
	switch in := in.(type) {
	case *ssa.DebugRef:
	case *ssa.UnOp:
		e.set(fr, in, e.unop(fr, in))
	case *ssa.BinOp:
		e.set(fr, in, e.binop(in.Op, in.X.Type(), e.get(fr, in.X), e.get(fr, in.Y), in.Y.Type()))
	case *ssa.Call:
		fn, args := e.prepareCall(fr, &in.Call)
		e.set(fr, in, e.call(fn, args, in))
	case *ssa.ChangeInterface:
		e.set(fr, in, e.get(fr, in.X))
	case *ssa.ChangeType:
		e.set(fr, in, e.get(fr, in.X))
	case *ssa.Convert:
		e.set(fr, in, e.convert(in.X.Type(), in.Type(), e.get(fr, in.X)))
	case *ssa.MultiConvert:
		e.set(fr, in, e.convert(in.X.Type(), in.Type(), e.get(fr, in.X)))
	case *ssa.SliceToArrayPointer:
		s := e.get(fr, in.X).(Slice)
		n := int(in.Type().(*types.Pointer).Elem().Underlying().(*types.Array).Len())
		if s.len < n {
			e.goPanicRuntime(fmt.Sprintf("cannot convert slice with length %d to array or pointer to array with length %d", s.len, n))
		}
		if s.o == nil {
			e.set(fr, in, Ptr{})
		} else {
			e.set(fr, in, Ptr{o: s.o, off: s.off})
		}
	case *ssa.MakeInterface:
		v := e.get(fr, in.X)
		if a, ok := v.(Agg); ok {
			v = append(Agg(nil), a...)
		}
		e.set(fr, in, Iface{t: in.X.Type(), v: v})
	case *ssa.Extract:
		e.set(fr, in, e.get(fr, in.Tuple).(Tuple)[in.Index])
	case *ssa.Slice:
		e.set(fr, in, e.sliceOp(fr, in))
	case *ssa.Return:
		switch len(in.Results) {
		case 0:
		case 1:
			fr.result = e.get(fr, in.Results[0])
		default:
			t := make(Tuple, len(in.Results))
			for i, r := range in.Results {
				t[i] = e.get(fr, r)
			}
			fr.result = t
		}
		fr.block = nil
		return kReturn
	case *ssa.RunDefers:
		e.runDefers(fr)
	case *ssa.Panic:
		v := e.get(fr, in.X)
		e.goPanicValue(v.(Iface))
	case *ssa.Send:
		e.chanSend(e.get(fr, in.Chan).(*ChanObj), e.get(fr, in.X))
	case *ssa.Store:
		e.store(e.get(fr, in.Addr).(Ptr), in.Val.Type(), e.get(fr, in.Val))
	case *ssa.If:
		c := e.boolTerm(e.get(fr, in.Cond))
		if !c.IsConst() && !e.noMerge {
			if _, fixed := e.evalFixed(c); !fixed && e.tryMerge(fr, c) {
				return kJump
			}
		}
		succ := 1
		if e.branch(c) {
			succ = 0
		}
		fr.prev, fr.block = fr.block, fr.block.Succs[succ]
		return kJump
	case *ssa.Jump:
		fr.prev, fr.block = fr.block, fr.block.Succs[0]
		return kJump
	case *ssa.Defer:
		fn, args := e.prepareCall(fr, &in.Call)
		fr.defers = append(fr.defers, &deferred{fn: fn, args: args, inst: in})
	case *ssa.Go:
		fn, args := e.prepareCall(fr, &in.Call)
		e.spawn(fn, args)
	case *ssa.MakeChan:
		n := e.concInt(e.get(fr, in.Size), "channel capacity")
		e.nchan++
		e.set(fr, in, &ChanObj{id: e.nchan, cap: n, et: in.Type().Underlying().(*types.Chan).Elem()})
	case *ssa.Alloc:
		et := in.Type().(*types.Pointer).Elem()
		e.set(fr, in, Ptr{o: e.allocZero(et, "alloc "+in.Comment)})
	case *ssa.MakeSlice:
		et := in.Type().Underlying().(*types.Slice).Elem()
		ln := e.optInt(fr, in.Len, 0)
		cp := e.optInt(fr, in.Cap, 0)
		e.set(fr, in, e.makeSlice(et, ln, cp))
	case *ssa.MakeMap:
		mt := in.Type().Underlying().(*types.Map)
		e.nobj++
		e.set(fr, in, &MapObj{id: e.nobj, kt: mt.Key(), vt: mt.Elem(), base: e.inInit})
	case *ssa.Range:
		e.set(fr, in, e.rangeIter(e.get(fr, in.X), in.X.Type()))
	case *ssa.Next:
		e.set(fr, in, e.next(e.get(fr, in.Iter).(*iter), in))
	case *ssa.FieldAddr:
		p := e.get(fr, in.X).(Ptr)
		e.nilCheck(p, "field address")
		st := in.X.Type().Underlying().(*types.Pointer).Elem()
		p.off += e.layout(st).fieldOff[in.Field]
		e.set(fr, in, p)
	case *ssa.Field:
		a := e.get(fr, in.X).(Agg)
		st := in.X.Type()
		l := e.layout(st)
		ft := st.Underlying().(*types.Struct).Field(in.Field).Type()
		off := l.fieldOff[in.Field]
		if isAgg(ft) {
			n := e.cellsOf(ft)
			e.set(fr, in, append(Agg(nil), a[off:off+n]...))
		} else {
			e.set(fr, in, a[off])
		}
	case *ssa.IndexAddr:
		e.set(fr, in, e.indexAddr(fr, in))
	case *ssa.Index:
		e.set(fr, in, e.indexOp(fr, in))
	case *ssa.Lookup:
		e.set(fr, in, e.lookup(fr, in))
	case *ssa.MapUpdate:
		m := e.get(fr, in.Map).(*MapObj)
		e.mapUpdate(m, e.get(fr, in.Key), e.get(fr, in.Value))
	case *ssa.TypeAssert:
		e.set(fr, in, e.typeAssert(in, e.get(fr, in.X).(Iface)))
	case *ssa.MakeClosure:
		env := make([]Value, len(in.Bindings))
		for i, b := range in.Bindings {
			env[i] = e.get(fr, b)
		}
		e.set(fr, in, &Closure{fn: in.Fn.(*ssa.Function), env: env})
	case *ssa.Phi:
		if fr.mergedPhis {
			break
		}
		for i, pred := range in.Block().Preds {
			if fr.prev == pred {
				e.set(fr, in, e.get(fr, in.Edges[i]))
				break
			}
		}
	case *ssa.Select:
		e.set(fr, in, e.selectOp(fr, in))
	default:
		e.unsupported(fmt.Sprintf("instruction %T", in))
	}
	return kNext
}

// ---------- unary / binary ----------

func (e *Exec) unop(fr *frame, in *ssa.UnOp) Value {
	x := e.get(fr, in.X)
	switch in.Op {
	case token.MUL: // load
		return e.load(x.(Ptr), in.Type())
	case token.NOT:
		return e.tc.BNot(e.boolTerm(x))
	case token.SUB:
		t := x.(*Term)
		if t.S.K == KFP {
			return e.tc.FUn(OpFNeg, t)
		}
		return e.tc.Neg(t)
	case token.XOR:
		return e.tc.Not(x.(*Term))
	case token.ARROW:
		v, ok := e.chanRecv(x.(*ChanObj))
		if in.CommaOk {
			return Tuple{v, e.tc.Bool(ok)}
		}
		return v
	}
	e.unsupported("unop " + in.Op.String())
	return nil
}

func (e *Exec) binop(op token.Token, xt types.Type, x, y Value, yt types.Type) Value {
	tc := e.tc
	switch op {
	case token.EQL:
		return e.equal(xt, x, y)
	case token.NEQ:
		return tc.BNot(e.equal(xt, x, y))
	}
	switch a := x.(type) {
	case Str:
		b := y.(Str)
		switch op {
		case token.ADD:
			return strConcat(tc, a, b)
		case token.LSS, token.LEQ, token.GTR, token.GEQ:
			return e.strCompare(op, a, b)
		}
	case *Term:
		b := y.(*Term)
		switch a.S.K {
		case KBool:
			switch op {
			case token.AND, token.LAND:
				return tc.BAnd(a, b)
			case token.OR, token.LOR:
				return tc.BOr(a, b)
			}
		case KFP:
			switch op {
			case token.ADD:
				return tc.FBin(OpFAdd, a, b)
			case token.SUB:
				return tc.FBin(OpFSub, a, b)
			case token.MUL:
				return tc.FBin(OpFMul, a, b)
			case token.QUO:
				return tc.FBin(OpFDiv, a, b)
			case token.LSS:
				return tc.FCmp(OpFLt, a, b)
			case token.LEQ:
				return tc.FCmp(OpFLe, a, b)
			case token.GTR:
				return tc.FCmp(OpFLt, b, a)
			case token.GEQ:
				return tc.FCmp(OpFLe, b, a)
			}
		case KBV:
			_, signed, _ := intInfo(xt)
			switch op {
			case token.ADD:
				return tc.Bin(OpAdd, a, b)
			case token.SUB:
				return tc.Bin(OpSub, a, b)
			case token.MUL:
				return tc.Bin(OpMul, a, b)
			case token.QUO, token.REM:
				e.check(tc.BNot(tc.Cmp(OpEq, b, tc.Const(b.S.W, 0))), "integer divide by zero")
				switch {
				case op == token.QUO && signed:
					return tc.Bin(OpSDiv, a, b)
				case op == token.QUO:
					return tc.Bin(OpUDiv, a, b)
				case signed:
					return tc.Bin(OpSRem, a, b)
				default:
					return tc.Bin(OpURem, a, b)
				}
			case token.AND:
				return tc.Bin(OpAnd, a, b)
			case token.OR:
				return tc.Bin(OpOr, a, b)
			case token.XOR:
				return tc.Bin(OpXor, a, b)
			case token.AND_NOT:
				return tc.Bin(OpAnd, a, tc.Not(b))
			case token.SHL, token.SHR:
				return e.shift(op, a, signed, b, yt)
			case token.LSS:
				if signed {
					return tc.Cmp(OpSlt, a, b)
				}
				return tc.Cmp(OpUlt, a, b)
			case token.LEQ:
				if signed {
					return tc.Cmp(OpSle, a, b)
				}
				return tc.Cmp(OpUle, a, b)
			case token.GTR:
				if signed {
					return tc.Cmp(OpSlt, b, a)
				}
				return tc.Cmp(OpUlt, b, a)
			case token.GEQ:
				if signed {
					return tc.Cmp(OpSle, b, a)
				}
				return tc.Cmp(OpUle, b, a)
			}
		}
	}
	e.unsupported(fmt.Sprintf("binop %s on %T (%s)", op, x, xt))
	return nil
}

func (e *Exec) shift(op token.Token, a *Term, signed bool, b *Term, yt types.Type) Value {
	tc := e.tc
	w := a.S.W
	_, ysigned, _ := intInfo(yt)
	if ysigned {
		e.check(tc.Cmp(OpSle, tc.Const(b.S.W, 0), b), "negative shift amount")
	}
	// bring the count to the width of a, saturating
	var cnt *Term
	var big *Term // count >= w
	if b.S.W > w {
		big = tc.Cmp(OpUle, tc.Const(b.S.W, uint64(w)), b)
		cnt = tc.Extract(b, w-1, 0)
	} else {
		cnt = tc.ZExt(b, w)
		big = tc.Cmp(OpUle, tc.Const(w, uint64(w)), cnt)
	}
	var r *Term
	switch {
	case op == token.SHL:
		r = tc.Ite(big, tc.Const(w, 0), tc.Bin(OpShl, a, cnt))
	case signed:
		r = tc.Ite(big, tc.Bin(OpAShr, a, tc.Const(w, uint64(w-1))), tc.Bin(OpAShr, a, cnt))
	default:
		r = tc.Ite(big, tc.Const(w, 0), tc.Bin(OpLShr, a, cnt))
	}
	return r
}

func (e *Exec) strCompare(op token.Token, a, b Str) Value {
	tc := e.tc
	if a.Conc() && b.Conc() {
		switch op {
		case token.LSS:
			return tc.Bool(a.s < b.s)
		case token.LEQ:
			return tc.Bool(a.s <= b.s)
		case token.GTR:
			return tc.Bool(a.s > b.s)
		case token.GEQ:
			return tc.Bool(a.s >= b.s)
		}
	}
	// lexicographic: lt = OR_i (prefix equal ∧ a[i] < b[i])  ∨ (prefix equal over min ∧ len(a) < len(b))
	n := a.Len()
	if b.Len() < n {
		n = b.Len()
	}
	lt := tc.Bool(a.Len() < b.Len())
	eq := tc.Bool(a.Len() == b.Len())
	for i := n - 1; i >= 0; i-- {
		x, y := a.At(tc, i), b.At(tc, i)
		same := tc.Cmp(OpEq, x, y)
		lt = tc.BOr(tc.Cmp(OpUlt, x, y), tc.BAnd(same, lt))
		eq = tc.BAnd(same, eq)
	}
	switch op {
	case token.LSS:
		return lt
	case token.LEQ:
		return tc.BOr(lt, eq)
	case token.GTR:
		return tc.BNot(tc.BOr(lt, eq))
	default:
		return tc.BNot(lt)
	}
}

func (e *Exec) strEqual(a, b Str) *Term {
	tc := e.tc
	if a.Len() != b.Len() {
		return tc.False
	}
	if a.Conc() && b.Conc() {
		return tc.Bool(a.s == b.s)
	}
	r := tc.True
	for i := a.Len() - 1; i >= 0; i-- {
		r = tc.BAnd(tc.Cmp(OpEq, a.At(tc, i), b.At(tc, i)), r)
		if r == tc.False {
			return r
		}
	}
	return r
}

func ptrEqual(tc *TermCtx, a, b Ptr) *Term {
	if a.o != b.o {
		return tc.False
	}
	if a.o == nil {
		return tc.True
	}
	if a.sym == nil && b.sym == nil {
		return tc.Bool(a.off == b.off)
	}
	ai, bi := tc.Const(64, uint64(a.off)), tc.Const(64, uint64(b.off))
	if a.sym != nil {
		ai = tc.Bin(OpAdd, ai, tc.Bin(OpMul, a.sym.idx, tc.Const(64, uint64(a.sym.stride))))
	}
	if b.sym != nil {
		bi = tc.Bin(OpAdd, bi, tc.Bin(OpMul, b.sym.idx, tc.Const(64, uint64(b.sym.stride))))
	}
	return tc.Cmp(OpEq, ai, bi)
}

func (e *Exec) equal(t types.Type, x, y Value) *Term {
	tc := e.tc
	switch a := x.(type) {
	case *Term:
		b := y.(*Term)
		if a.S.K == KFP {
			return tc.FCmp(OpFEq, a, b)
		}
		return tc.Cmp(OpEq, a, b)
	case Str:
		return e.strEqual(a, y.(Str))
	case Ptr:
		return ptrEqual(tc, a, y.(Ptr))
	case Iface:
		b := y.(Iface)
		if a.t == nil || b.t == nil {
			return tc.Bool(a.t == nil && b.t == nil)
		}
		if !types.Identical(a.t, b.t) {
			return tc.False
		}
		if !types.Comparable(a.t) {
			e.goPanicRuntime("comparing uncomparable type " + a.t.String())
		}
		return e.equal(a.t, a.v, b.v)
	case Agg:
		b := y.(Agg)
		return e.aggEqual(t, a, b)
	case *MapObj:
		b := y.(*MapObj)
		return tc.Bool(a == b)
	case *ChanObj:
		return tc.Bool(a == y.(*ChanObj))
	case Slice:
		b := y.(Slice)
		// only comparison with nil is legal
		if b.o == nil && b.len == 0 && b.cap == 0 {
			return tc.Bool(a.o == nil)
		}
		return tc.Bool(b.o == nil && a.o == nil)
	case FuncNil:
		_, ok := y.(FuncNil)
		return tc.Bool(ok)
	case *ssa.Function, *Closure, *NativeFn, *ssa.Builtin:
		_, ok := y.(FuncNil)
		if ok {
			return tc.False
		}
	}
	e.unsupported(fmt.Sprintf("equality on %T (%v)", x, t))
	return nil
}

func (e *Exec) aggEqual(t types.Type, a, b Agg) *Term {
	tc := e.tc
	r := tc.True
	switch u := t.Underlying().(type) {
	case *types.Struct:
		l := e.layout(t)
		for i := 0; i < u.NumFields(); i++ {
			ft := u.Field(i).Type()
			if u.Field(i).Name() == "_" {
				continue
			}
			off := l.fieldOff[i]
			if isAgg(ft) {
				n := e.cellsOf(ft)
				r = tc.BAnd(r, e.aggEqual(ft, a[off:off+n], b[off:off+n]))
			} else {
				r = tc.BAnd(r, e.equal(ft, a[off], b[off]))
			}
		}
	case *types.Array:
		ec := e.cellsOf(u.Elem())
		for i := 0; i < int(u.Len()); i++ {
			if isAgg(u.Elem()) {
				r = tc.BAnd(r, e.aggEqual(u.Elem(), a[i*ec:(i+1)*ec], b[i*ec:(i+1)*ec]))
			} else {
				r = tc.BAnd(r, e.equal(u.Elem(), a[i], b[i]))
			}
		}
	}
	return r
}

// ---------- conversions ----------

func (e *Exec) convert(from, to types.Type, x Value) Value {
	tc := e.tc
	uf, ut := from.Underlying(), to.Underlying()
	// generics: core types
	if tp, ok := uf.(*types.Interface); ok && tp.NumEmbeddeds() > 0 {
		e.unsupported("convert from type-parameter constraint")
	}
	switch ut := ut.(type) {
	case *types.Basic:
		if ut.Kind() == types.UnsafePointer {
			switch v := x.(type) {
			case Ptr:
				return v
			case *ptrInt:
				return v.p
			}
			e.unsupported(fmt.Sprintf("convert %T to unsafe.Pointer", x))
		}
		if ut.Info()&types.IsString != 0 {
			switch v := x.(type) {
			case Str:
				return v
			case Slice:
				// []byte or []rune
				et := uf.(*types.Slice).Elem().Underlying().(*types.Basic)
				if et.Kind() == types.Uint8 {
					return mkStr(e.sliceBytes(v))
				}
				return e.callModel("RunesToString", v)
			case *Term:
				// integer -> string (rune)
				w, signed, _ := intInfo(from)
				var r *Term
				if signed {
					r = tc.SExt(v, 64)
				} else {
					r = tc.ZExt(v, 64)
				}
				_ = w
				return e.callModel("RuneToString", tc.Extract(r, 31, 0))
			}
		}
		if t, ok := x.(*Term); ok {
			toSort, toSigned, ok2 := basicSort(ut)
			if !ok2 {
				break
			}
			_ = toSigned
			switch {
			case t.S.K == KBV && toSort.K == KBV:
				_, fs, _ := intInfo(from)
				if toSort.W <= t.S.W {
					return tc.Extract(t, toSort.W-1, 0)
				}
				if fs {
					return tc.SExt(t, toSort.W)
				}
				return tc.ZExt(t, toSort.W)
			case t.S.K == KBV && toSort.K == KFP:
				_, fs, _ := intInfo(from)
				r := tc.IntToFP(t, fs)
				if ut.Kind() == types.Float32 {
					e.unsupported("float32 conversion")
				}
				return r
			case t.S.K == KFP && toSort.K == KBV:
				// out-of-range conversion is implementation-defined in Go: not modelled
				if !t.IsConst() {
					lim := math.Ldexp(1, toSort.W-1)
					if !toSigned {
						lim = math.Ldexp(1, toSort.W)
					}
					inRange := tc.BAnd(tc.FCmp(OpFLt, tc.FConst(-lim-1), t), tc.FCmp(OpFLt, t, tc.FConst(lim)))
					if !toSigned {
						inRange = tc.BAnd(tc.FCmp(OpFLt, tc.FConst(-1), t), tc.FCmp(OpFLt, t, tc.FConst(lim)))
					}
					if !e.branch(inRange) {
						e.unsupported("float to integer conversion out of range (implementation-defined)")
					}
				}
				return tc.FPToInt(t, toSort.W, toSigned)
			case t.S.K == KFP && toSort.K == KFP:
				if ut.Kind() == types.Float32 && !t.IsConst() {
					e.unsupported("float32 conversion")
				}
				if ut.Kind() == types.Float32 {
					return tc.FConst(float64(float32(math.Float64frombits(t.C))))
				}
				return t
			case t.S.K == KBool && toSort.K == KBool:
				return t
			}
		}
		if p, ok := x.(Ptr); ok && ut.Kind() == types.Uintptr {
			return &ptrInt{p: p}
		}
		if pi, ok := x.(*ptrInt); ok && ut.Kind() == types.Uintptr {
			return pi
		}
	case *types.Slice:
		if s, ok := x.(Str); ok {
			et := ut.Elem().Underlying().(*types.Basic)
			if et.Kind() == types.Uint8 {
				return e.newByteSliceFromString(s)
			}
			return e.callModel("StringToRunes", s)
		}
		if s, ok := x.(Slice); ok {
			return s
		}
	case *types.Pointer:
		switch v := x.(type) {
		case Ptr:
			return v
		case *ptrInt:
			return v.p
		}
	case *types.Signature, *types.Map, *types.Chan, *types.Interface, *types.Struct, *types.Array:
		return x
	}
	e.unsupported(fmt.Sprintf("convert %s -> %s (%T)", from, to, x))
	return nil
}

// uintptr that still remembers the pointer it came from (noescape idiom)
type ptrInt struct{ p Ptr }

// ---------- slices, indexing ----------

func (e *Exec) makeSlice(et types.Type, ln, cp *Term) Value {
	var n, c int
	if ln.IsConst() && cp.IsConst() {
		n, c = int(sx(ln.C, ln.S.W)), int(sx(cp.C, cp.S.W))
	} else {
		// run-time check first, then concretise
		ok := e.tc.BAnd(e.tc.Cmp(OpSle, e.tc.Const(ln.S.W, 0), ln), e.tc.Cmp(OpSle, ln, cp))
		e.check(ok, "makeslice: len out of range")
		if !cp.IsConst() || !ln.IsConst() {
			lim := e.tc.Const(cp.S.W, uint64(e.allocLimit()))
			if !e.branch(e.tc.Cmp(OpSle, cp, lim)) {
				e.violation("alloc", "makeslice", fmt.Sprintf("allocation larger than limit %d elements requested from symbolic size", e.allocLimit()))
			}
		}
		c = int(sx(e.concretize(cp, "make size"), 64))
		n = int(sx(e.concretize(ln, "make len"), 64))
	}
	if n < 0 || n > c {
		e.goPanicRuntime("makeslice: len out of range")
	}
	if c > e.allocLimit() {
		e.violation("alloc", "makeslice", fmt.Sprintf("allocation of %d elements exceeds limit %d", c, e.allocLimit()))
	}
	ec := e.cellsOf(et)
	o := e.newObj(c*ec, "make([]"+et.String()+")")
	if c > 0 {
		if ec == 1 && !isAgg(et) {
			z := e.zero(et)
			for i := range o.cells {
				o.cells[i] = z
			}
		} else {
			for i := 0; i < c; i++ {
				e.fillZero(o.cells[i*ec:(i+1)*ec], et)
			}
		}
	}
	return Slice{o: o, off: 0, len: n, cap: c}
}

func (e *Exec) allocLimit() int {
	if e.allocLim > 0 {
		return e.allocLim
	}
	return 1 << 24
}

func (e *Exec) optInt(fr *frame, v ssa.Value, def int) *Term {
	if v == nil {
		return e.tc.Const(64, uint64(def))
	}
	t := e.intTerm(e.get(fr, v))
	_, signed, _ := intInfo(v.Type())
	if signed {
		return e.tc.SExt(t, 64)
	}
	return e.tc.ZExt(t, 64)
}

func (e *Exec) sliceOp(fr *frame, in *ssa.Slice) Value {
	x := e.get(fr, in.X)
	tc := e.tc
	switch v := x.(type) {
	case Str:
		lo := e.optInt(fr, in.Low, 0)
		hi := e.optInt(fr, in.High, v.Len())
		e.check(tc.BAnd(tc.Cmp(OpSle, tc.Const(64, 0), lo), tc.BAnd(tc.Cmp(OpSle, lo, hi), tc.Cmp(OpSle, hi, tc.Const(64, uint64(v.Len()))))),
			"slice bounds out of range")
		l, h := int(e.concretize(lo, "string slice low")), int(e.concretize(hi, "string slice high"))
		return v.Sub(l, h)
	case Slice:
		ec := e.cellsOf(in.X.Type().Underlying().(*types.Slice).Elem())
		lo := e.optInt(fr, in.Low, 0)
		hi := e.optInt(fr, in.High, v.len)
		mx := e.optInt(fr, in.Max, v.cap)
		e.check(tc.BAnd(tc.Cmp(OpSle, tc.Const(64, 0), lo), tc.BAnd(tc.Cmp(OpSle, lo, hi), tc.BAnd(tc.Cmp(OpSle, hi, mx), tc.Cmp(OpSle, mx, tc.Const(64, uint64(v.cap)))))),
			"slice bounds out of range")
		l, h, m := int(e.concretize(lo, "slice low")), int(e.concretize(hi, "slice high")), int(e.concretize(mx, "slice max"))
		if v.o == nil {
			return Slice{}
		}
		return Slice{o: v.o, off: v.off + l*ec, len: h - l, cap: m - l}
	case Ptr: // *array
		at := in.X.Type().Underlying().(*types.Pointer).Elem().Underlying().(*types.Array)
		e.nilCheck(v, "slice of nil array pointer")
		n := int(at.Len())
		ec := e.cellsOf(at.Elem())
		lo := e.optInt(fr, in.Low, 0)
		hi := e.optInt(fr, in.High, n)
		mx := e.optInt(fr, in.Max, n)
		e.check(tc.BAnd(tc.Cmp(OpSle, tc.Const(64, 0), lo), tc.BAnd(tc.Cmp(OpSle, lo, hi), tc.BAnd(tc.Cmp(OpSle, hi, mx), tc.Cmp(OpSle, mx, tc.Const(64, uint64(n)))))),
			"slice bounds out of range")
		l, h, m := int(e.concretize(lo, "slice low")), int(e.concretize(hi, "slice high")), int(e.concretize(mx, "slice max"))
		return Slice{o: v.o, off: v.off + l*ec, len: h - l, cap: m - l}
	}
	e.unsupported(fmt.Sprintf("slice of %T", x))
	return nil
}

// index (sign/zero-extended to 64 bit) with bounds obligation
func (e *Exec) index64(fr *frame, v ssa.Value, n int) *Term {
	t := e.intTerm(e.get(fr, v))
	_, signed, _ := intInfo(v.Type())
	var i *Term
	if signed {
		i = e.tc.SExt(t, 64)
	} else {
		i = e.tc.ZExt(t, 64)
	}
	if i.IsConst() {
		if int64(i.C) < 0 || int64(i.C) >= int64(n) {
			e.goPanicRuntime(fmt.Sprintf("index out of range [%d] with length %d", int64(i.C), n))
		}
		return i
	}
	e.checkMsg(e.tc.Cmp(OpUlt, i, e.tc.Const(64, uint64(n))), func() string {
		return fmt.Sprintf("index out of range [%d] with length %d", int64(e.modelVal(i)), n)
	})
	return i
}

func (e *Exec) indexAddr(fr *frame, in *ssa.IndexAddr) Value {
	x := e.get(fr, in.X)
	var o *Obj
	var base, n, ec int
	switch v := x.(type) {
	case Slice:
		ec = e.cellsOf(in.X.Type().Underlying().(*types.Slice).Elem())
		o, base, n = v.o, v.off, v.len
	case Ptr:
		at := in.X.Type().Underlying().(*types.Pointer).Elem().Underlying().(*types.Array)
		e.nilCheck(v, "index of nil array pointer")
		if v.sym != nil {
			j := int(e.concretize(v.sym.idx, "nested symbolic index"))
			v = Ptr{o: v.o, off: v.off + j*v.sym.stride}
		}
		ec = e.cellsOf(at.Elem())
		o, base, n = v.o, v.off, int(at.Len())
	default:
		e.unsupported(fmt.Sprintf("IndexAddr on %T", x))
	}
	i := e.index64(fr, in.Index, n)
	if i.IsConst() {
		return Ptr{o: o, off: base + int(i.C)*ec}
	}
	return Ptr{o: o, off: base, sym: &SymIdx{idx: i, stride: ec, count: n}}
}

func (e *Exec) indexOp(fr *frame, in *ssa.Index) Value {
	x := e.get(fr, in.X)
	switch v := x.(type) {
	case Agg:
		at := in.X.Type().Underlying().(*types.Array)
		n := int(at.Len())
		ec := e.cellsOf(at.Elem())
		i := e.index64(fr, in.Index, n)
		if !i.IsConst() {
			// spill to a temporary object and reuse the symbolic load
			o := e.newObj(len(v), "tmp array")
			copy(o.cells, v)
			return e.load(Ptr{o: o, off: 0, sym: &SymIdx{idx: i, stride: ec, count: n}}, at.Elem())
		}
		k := int(i.C)
		if isAgg(at.Elem()) {
			return append(Agg(nil), v[k*ec:(k+1)*ec]...)
		}
		return v[k]
	case Str:
		i := e.index64(fr, in.Index, v.Len())
		return e.strIndex(v, i)
	}
	e.unsupported(fmt.Sprintf("Index on %T", x))
	return nil
}

func (e *Exec) strIndex(v Str, i *Term) *Term {
	if i.IsConst() {
		return v.At(e.tc, int(i.C))
	}
	if v.Len() <= 256 {
		var res *Term
		for k := v.Len() - 1; k >= 0; k-- {
			c := v.At(e.tc, k)
			if res == nil {
				res = c
			} else {
				res = e.tc.Ite(e.tc.Cmp(OpEq, i, e.tc.Const(64, uint64(k))), c, res)
			}
		}
		return res
	}
	k := int(e.concretize(i, "symbolic index into long string"))
	return v.At(e.tc, k)
}

func (e *Exec) lookup(fr *frame, in *ssa.Lookup) Value {
	x := e.get(fr, in.X)
	switch v := x.(type) {
	case Str:
		i := e.index64(fr, in.Index, v.Len())
		return e.strIndex(v, i)
	case *MapObj:
		mt := in.X.Type().Underlying().(*types.Map)
		val, ok := e.mapLookup(v, mt, e.get(fr, in.Index))
		if in.CommaOk {
			return Tuple{val, e.tc.Bool(ok)}
		}
		return val
	}
	e.unsupported(fmt.Sprintf("Lookup on %T", x))
	return nil
}

// ---------- maps ----------

func (e *Exec) copyVal(v Value) Value {
	if a, ok := v.(Agg); ok {
		return append(Agg(nil), a...)
	}
	return v
}

func (e *Exec) mapFind(m *MapObj, kt types.Type, key Value) int {
	if m == nil {
		return -1
	}
	for i, k := range m.keys {
		eq := e.equal(kt, k, key)
		if eq == e.tc.True {
			return i
		}
		if eq == e.tc.False {
			continue
		}
		if e.branch(eq) {
			return i
		}
	}
	return -1
}

func (e *Exec) mapLookup(m *MapObj, mt *types.Map, key Value) (Value, bool) {
	i := e.mapFind(m, mt.Key(), key)
	if i < 0 {
		return e.zero(mt.Elem()), false
	}
	return e.copyVal(m.vals[i]), true
}

func (e *Exec) mapSave(m *MapObj) {
	if m.base && !e.inInit && !m.saved {
		m.saved = true
		e.undo = append(e.undo, undoRec{m: m, mkeys: append([]Value(nil), m.keys...), mvals: append([]Value(nil), m.vals...)})
	}
}

func (e *Exec) mapUpdate(m *MapObj, key, val Value) {
	if m == nil {
		e.goPanicRuntime("assignment to entry in nil map")
	}
	i := e.mapFind(m, m.kt, key)
	e.mapSave(m)
	if i >= 0 {
		m.vals[i] = e.copyVal(val)
		return
	}
	m.keys = append(m.keys, e.copyVal(key))
	m.vals = append(m.vals, e.copyVal(val))
}

func (e *Exec) mapDelete(m *MapObj, key Value) {
	if m == nil {
		return
	}
	i := e.mapFind(m, m.kt, key)
	if i < 0 {
		return
	}
	e.mapSave(m)
	m.keys = append(append([]Value(nil), m.keys[:i]...), m.keys[i+1:]...)
	m.vals = append(append([]Value(nil), m.vals[:i]...), m.vals[i+1:]...)
}

// ---------- range ----------

type iter struct {
	m    *MapObj
	keys []Value
	vals []Value
	s    Str
	pos  int
	isS  bool
}

func (e *Exec) rangeIter(x Value, t types.Type) Value {
	switch v := x.(type) {
	case Str:
		return &iter{s: v, isS: true}
	case *MapObj:
		if v == nil {
			return &iter{}
		}
		return &iter{m: v, keys: append([]Value(nil), v.keys...), vals: append([]Value(nil), v.vals...)}
	}
	e.unsupported(fmt.Sprintf("range over %T", x))
	return nil
}

func (e *Exec) next(it *iter, in *ssa.Next) Value {
	tc := e.tc
	if it.isS {
		if it.pos >= it.s.Len() {
			return Tuple{tc.False, tc.Const(64, 0), tc.Const(32, 0)}
		}
		rest := it.s.Sub(it.pos, it.s.Len())
		if rest.Conc() {
			r, n := utf8.DecodeRuneInString(rest.s)
			pos := it.pos
			it.pos += n
			return Tuple{tc.True, tc.Const(64, uint64(pos)), tc.Const(32, uint64(r))}
		}
		res := e.callModel("DecodeRuneInString", rest).(Tuple)
		r, size := res[0].(*Term), e.concInt(res[1], "rune size")
		pos := it.pos
		it.pos += size
		return Tuple{tc.True, tc.Const(64, uint64(pos)), r}
	}
	for it.pos < len(it.keys) {
		k, v := it.keys[it.pos], it.vals[it.pos]
		it.pos++
		// skip entries deleted during iteration
		if it.m != nil {
			found := false
			for _, mk := range it.m.keys {
				if e.equal(it.m.kt, mk, k) == tc.True {
					found = true
					break
				}
			}
			if !found {
				continue
			}
		}
		return Tuple{tc.True, e.copyVal(k), e.copyVal(v)}
	}
	var zk, zv Value = tc.False, tc.False
	if tt, ok := in.Type().(*types.Tuple); ok && tt.Len() == 3 {
		if tt.At(1).Type() != nil && !isInvalid(tt.At(1).Type()) {
			zk = e.zero(tt.At(1).Type())
		}
		if tt.At(2).Type() != nil && !isInvalid(tt.At(2).Type()) {
			zv = e.zero(tt.At(2).Type())
		}
	}
	return Tuple{tc.False, zk, zv}
}

func isInvalid(t types.Type) bool {
	b, ok := t.(*types.Basic)
	return ok && b.Kind() == types.Invalid
}

// ---------- type assertions ----------

func (e *Exec) implements(dyn types.Type, it *types.Interface) bool {
	return types.Implements(dyn, it)
}

func (e *Exec) typeAssert(in *ssa.TypeAssert, x Iface) Value {
	ok := false
	var res Value
	if it, isI := in.AssertedType.Underlying().(*types.Interface); isI {
		if x.t != nil && e.implements(x.t, it) {
			ok, res = true, x
		}
	} else {
		if x.t != nil && types.Identical(x.t, in.AssertedType) {
			ok, res = true, e.copyVal(x.v)
		}
	}
	if in.CommaOk {
		if !ok {
			res = e.zero(in.AssertedType)
		}
		return Tuple{res, e.tc.Bool(ok)}
	}
	if !ok {
		dyn := "nil"
		if x.t != nil {
			dyn = x.t.String()
		}
		e.goPanicRuntime(fmt.Sprintf("interface conversion: interface is %s, not %s", dyn, in.AssertedType))
	}
	return res
}
