package main

// Virtual file system, part 2: the remaining os / io/ioutil entry points a
// maintenance change of the mailbox code may plausibly reach for (Stat, Lstat,
// ReadDir, Create/OpenFile + Write/Sync/Close, CreateTemp, Mkdir, Link,
// Truncate, directory handles for filepath.Glob / filepath.Walk).  Same
// contract as part 1: every mutating call is one crash point (before / after),
// a Write additionally after every prefix.

import (
	"go/types"
	"path"
	"sort"
	"strings"

	"golang.org/x/tools/go/ssa"
)

const (
	oWRONLY = 0x1
	oRDWR   = 0x2
	oCREATE = 0x40
	oEXCL   = 0x80
	oTRUNC  = 0x200
	oAPPEND = 0x400
)

func (e *Exec) vbase(p Str) Str {
	if p.Conc() {
		return Str{s: path.Base(p.s)}
	}
	par := e.vparent(p)
	if par.Conc() && (par.s == "." || par.s == "/") {
		if par.s == "/" {
			return p.Sub(1, p.Len())
		}
		return p
	}
	return p.Sub(par.Len()+1, p.Len())
}

func (e *Exec) vinfo(name Str, dir bool, size int) Iface {
	it := e.modelType("VFileInfo")
	a := e.zero(it).(Agg)
	a[0], a[1], a[2] = name, e.tc.Bool(dir), e.tc.Const(64, uint64(size))
	return Iface{t: it, v: a}
}

func (e *Exec) vfsErrExist(op string, p Str) Iface {
	err := e.vfsErr(op, p, "file exists", false)
	fp, ft := e.fieldPtr(err.v.(Ptr), e.modelType("VFSError"), "Exist")
	e.store(fp, ft, e.tc.True)
	return err
}

func (e *Exec) ioEOF() Value {
	g := e.prog.ssa.ImportedPackage("io").Var("EOF")
	return e.load(Ptr{o: e.globalObj(g)}, g.Type().(*types.Pointer).Elem())
}

type vdirEnt struct {
	name Str
	dir  bool
	size int
}

// entries of a (concrete) directory, sorted by name where names are concrete
func (e *Exec) vlist(p string) []vdirEnt {
	var ents []vdirEnt
	fs := e.fs()
	for _, d := range fs.dirs {
		if path.Dir(d) == p && d != p {
			ents = append(ents, vdirEnt{Str{s: path.Base(d)}, true, 0})
		}
	}
	for _, f := range fs.files {
		if f.path.Conc() {
			if path.Dir(f.path.s) == p {
				ents = append(ents, vdirEnt{Str{s: path.Base(f.path.s)}, false, len(f.data)})
			}
			continue
		}
		par := e.vparent(f.path)
		if e.branch(e.strEqual(par, Str{s: p})) {
			ents = append(ents, vdirEnt{f.path.Sub(par.Len()+1, f.path.Len()), false, len(f.data)})
		}
	}
	sort.SliceStable(ents, func(i, j int) bool {
		if ents[i].name.Conc() && ents[j].name.Conc() {
			return ents[i].name.s < ents[j].name.s
		}
		return false
	})
	return ents
}

func (e *Exec) vhandleOf(v Value, what string) *vhandle {
	p := v.(Ptr)
	e.nilCheck(p, what)
	h := e.fs().handles[p.o]
	if h == nil {
		e.unsupported(what + " on a file that was not opened through the model")
	}
	return h
}

func (e *Exec) vnewHandle(h *vhandle) Ptr {
	o := e.allocZero(e.pkgType("os", "File"), "os.File")
	e.fs().handles[o] = h
	return Ptr{o: o}
}

// write data at the handle's position; one crash point with every prefix
func (e *Exec) vwrite(h *vhandle, data []*Term, what string) Value {
	if h.dir != "" || !h.writable {
		return Tuple{e.tc.Const(64, 0), e.vfsErr("write", h.name, "bad file descriptor", false)}
	}
	put := func(d []*Term) {
		if h.app {
			h.pos = len(h.f.data)
		}
		nd := append([]*Term(nil), h.f.data...)
		for len(nd) < h.pos {
			nd = append(nd, e.tc.Const(8, 0))
		}
		for i, t := range d {
			if h.pos+i < len(nd) {
				nd[h.pos+i] = t
			} else {
				nd = append(nd, t)
			}
		}
		h.f.data = nd
		h.pos += len(d)
	}
	if e.vMutating() {
		j := int(e.choice(0, int64(len(data))))
		put(data[:j])
		e.vCrash(what + " (after a prefix)")
	}
	if e.vFailNow() {
		j := int(e.choice(0, int64(len(data))))
		put(data[:j])
		return Tuple{e.tc.Const(64, uint64(j)), e.vIOErr("write", h.name)}
	}
	put(data)
	return Tuple{e.tc.Const(64, uint64(len(data))), Iface{}}
}

func init() {
	stat := func(e *Exec, args []Value, fn *ssa.Function) Value {
		p := e.vpath(args[0])
		e.vRecord(p)
		if f := e.vfind(p); f != nil {
			return Tuple{e.vinfo(e.vbase(p), false, len(f.data)), Iface{}}
		}
		if e.vdirExists(p) {
			return Tuple{e.vinfo(e.vbase(p), true, 0), Iface{}}
		}
		return Tuple{Iface{}, e.vfsErr("stat", p, "no such file or directory", true)}
	}
	reg("os.Stat", stat)
	reg("os.Lstat", stat)
	reg("os.IsExist", func(e *Exec, args []Value, fn *ssa.Function) Value {
		err := args[0].(Iface)
		if err.t == nil {
			return e.tc.False
		}
		if pt, ok := err.t.(*types.Pointer); ok && types.Identical(pt.Elem(), e.modelType("VFSError")) {
			fp, ft := e.fieldPtr(err.v.(Ptr), e.modelType("VFSError"), "Exist")
			return e.load(fp, ft)
		}
		return e.tc.False
	})
	reg("os.ReadDir", func(e *Exec, args []Value, fn *ssa.Function) Value {
		p := e.vpath(args[0])
		e.vRecord(p)
		if !p.Conc() {
			e.unsupported("ReadDir with symbolic path")
		}
		if !e.vdirExists(p) {
			return Tuple{Slice{}, e.vfsErr("open", p, "no such file or directory", true)}
		}
		ents := e.vlist(p.s)
		o := e.newObj(len(ents), "[]DirEntry")
		for i, en := range ents {
			o.cells[i] = e.vinfo(en.name, en.dir, en.size)
		}
		return Tuple{Slice{o: o, len: len(ents), cap: len(ents)}, Iface{}}
	})
	openFile := func(e *Exec, p Str, flag int, op string) Value {
		e.vRecord(p)
		f := e.vfind(p)
		if f == nil && flag&(oWRONLY|oRDWR|oCREATE) == 0 && e.vdirExists(p) {
			if !p.Conc() {
				e.unsupported("directory handle with symbolic path")
			}
			return Tuple{e.vnewHandle(&vhandle{dir: p.s, name: p}), Iface{}}
		}
		if f == nil {
			if flag&oCREATE == 0 {
				return Tuple{Ptr{}, e.vfsErr(op, p, "no such file or directory", true)}
			}
			if e.vdirExists(p) {
				return Tuple{Ptr{}, e.vfsErr(op, p, "is a directory", false)}
			}
			if !e.vdirExists(e.vparent(p)) {
				return Tuple{Ptr{}, e.vfsErr(op, p, "no such file or directory", true)}
			}
			crash := e.vMutating()
			if crash && e.choice(0, 1) == 0 {
				e.vCrash(op + " O_CREATE (before)")
			}
			if e.vFailNow() {
				return Tuple{Ptr{}, e.vIOErr(op, p)}
			}
			f = &vfile{path: p}
			e.fs().files = append(e.fs().files, f)
			if crash {
				e.vCrash(op + " O_CREATE (after)")
			}
		} else {
			if flag&oCREATE != 0 && flag&oEXCL != 0 {
				return Tuple{Ptr{}, e.vfsErrExist(op, p)}
			}
			if flag&oTRUNC != 0 && flag&(oWRONLY|oRDWR) != 0 && len(f.data) > 0 {
				crash := e.vMutating()
				if crash && e.choice(0, 1) == 0 {
					e.vCrash(op + " O_TRUNC (before)")
				}
				f.data = nil
				if crash {
					e.vCrash(op + " O_TRUNC (after)")
				}
			}
		}
		return Tuple{e.vnewHandle(&vhandle{f: f, name: p, writable: flag&(oWRONLY|oRDWR) != 0, app: flag&oAPPEND != 0}), Iface{}}
	}
	reg("os.Open", func(e *Exec, args []Value, fn *ssa.Function) Value {
		return openFile(e, e.vpath(args[0]), 0, "open")
	})
	reg("os.Create", func(e *Exec, args []Value, fn *ssa.Function) Value {
		return openFile(e, e.vpath(args[0]), oRDWR|oCREATE|oTRUNC, "open")
	})
	reg("os.OpenFile", func(e *Exec, args []Value, fn *ssa.Function) Value {
		return openFile(e, e.vpath(args[0]), e.concInt(args[1], "OpenFile flag"), "open")
	})
	createTemp := func(e *Exec, args []Value, fn *ssa.Function) Value {
		dir, pat := e.goString(args[0]), e.goString(args[1])
		if dir == "" {
			dir = "/vfs/tmp"
			e.fs().dirs = append(e.fs().dirs, "/vfs", dir)
		}
		pre, suf := pat, ""
		if i := strings.LastIndex(pat, "*"); i >= 0 {
			pre, suf = pat[:i], pat[i+1:]
		}
		fs := e.fs()
		fs.tmpN++
		name := path.Join(dir, pre+"vtmp"+string(rune('0'+fs.tmpN))+suf)
		return openFile(e, Str{s: name}, oRDWR|oCREATE|oEXCL, "open")
	}
	reg("os.CreateTemp", createTemp)
	reg("io/ioutil.TempFile", createTemp)
	reg("(*os.File).Write", func(e *Exec, args []Value, fn *ssa.Function) Value {
		h := e.vhandleOf(args[0], "File.Write")
		return e.vwrite(h, e.sliceBytes(args[1].(Slice)), "File.Write")
	})
	reg("(*os.File).WriteString", func(e *Exec, args []Value, fn *ssa.Function) Value {
		h := e.vhandleOf(args[0], "File.WriteString")
		return e.vwrite(h, args[1].(Str).Terms(e.tc), "File.WriteString")
	})
	reg("(*os.File).ReadFrom", func(e *Exec, args []Value, fn *ssa.Function) Value {
		h := e.vhandleOf(args[0], "File.ReadFrom")
		src := args[1].(Iface)
		total := 0
		for {
			buf := e.newByteSlice(make([]*Term, 0, 0))
			bo := e.newObj(512, "ReadFrom buffer")
			for i := range bo.cells {
				bo.cells[i] = e.tc.Const(8, 0)
			}
			buf = Slice{o: bo, len: 512, cap: 512}
			r := e.invoke(src, "Read", buf).(Tuple)
			n := e.concInt(r[0], "Read count")
			if n > 0 {
				w := e.vwrite(h, e.sliceBytes(Slice{o: bo, len: n, cap: 512}), "File.ReadFrom").(Tuple)
				if w[1].(Iface).t != nil {
					return Tuple{e.tc.Const(64, uint64(total)), w[1]}
				}
				total += n
			}
			if err := r[1].(Iface); err.t != nil {
				if e.errorsIs(err, e.ioEOF().(Iface), 0) {
					return Tuple{e.tc.Const(64, uint64(total)), Iface{}}
				}
				return Tuple{e.tc.Const(64, uint64(total)), err}
			}
		}
	})
	reg("(*os.File).WriteTo", func(e *Exec, args []Value, fn *ssa.Function) Value {
		h := e.vhandleOf(args[0], "File.WriteTo")
		if h.dir != "" {
			return Tuple{e.tc.Const(64, 0), e.vfsErr("read", h.name, "is a directory", false)}
		}
		rest := []*Term(nil)
		if h.pos < len(h.f.data) {
			rest = h.f.data[h.pos:]
		}
		h.pos = len(h.f.data)
		if len(rest) == 0 {
			return Tuple{e.tc.Const(64, 0), Iface{}}
		}
		r := e.invoke(args[1].(Iface), "Write", e.newByteSlice(append([]*Term(nil), rest...))).(Tuple)
		return Tuple{r[0], r[1]}
	})
	reg("(*os.File).Sync", func(e *Exec, args []Value, fn *ssa.Function) Value {
		e.vhandleOf(args[0], "File.Sync")
		return Iface{}
	})
	reg("(*os.File).Chmod", func(e *Exec, args []Value, fn *ssa.Function) Value { return Iface{} })
	reg("(*os.File).Name", func(e *Exec, args []Value, fn *ssa.Function) Value {
		return e.vhandleOf(args[0], "File.Name").name
	})
	reg("(*os.File).Stat", func(e *Exec, args []Value, fn *ssa.Function) Value {
		h := e.vhandleOf(args[0], "File.Stat")
		if h.dir != "" {
			return Tuple{e.vinfo(Str{s: path.Base(h.dir)}, true, 0), Iface{}}
		}
		return Tuple{e.vinfo(e.vbase(h.name), false, len(h.f.data)), Iface{}}
	})
	reg("(*os.File).Seek", func(e *Exec, args []Value, fn *ssa.Function) Value {
		h := e.vhandleOf(args[0], "File.Seek")
		off, whence := e.concInt(args[1], "Seek offset"), e.concInt(args[2], "Seek whence")
		switch whence {
		case 1:
			off += h.pos
		case 2:
			off += len(h.f.data)
		}
		if off < 0 {
			return Tuple{e.tc.Const(64, 0), e.vfsErr("seek", h.name, "invalid argument", false)}
		}
		h.pos = off
		return Tuple{e.tc.Const(64, uint64(off)), Iface{}}
	})
	reg("(*os.File).Truncate", func(e *Exec, args []Value, fn *ssa.Function) Value {
		h := e.vhandleOf(args[0], "File.Truncate")
		n := e.concInt(args[1], "Truncate size")
		crash := e.vMutating()
		if crash && e.choice(0, 1) == 0 {
			e.vCrash("Truncate (before)")
		}
		nd := append([]*Term(nil), h.f.data...)
		for len(nd) < n {
			nd = append(nd, e.tc.Const(8, 0))
		}
		h.f.data = nd[:n]
		if crash {
			e.vCrash("Truncate (after)")
		}
		return Iface{}
	})
	readdir := func(kind int) intrinsicFn {
		return func(e *Exec, args []Value, fn *ssa.Function) Value {
			h := e.vhandleOf(args[0], "File.Readdir")
			n := e.concInt(args[1], "Readdir count")
			if h.dir == "" {
				return Tuple{Slice{}, e.vfsErr("readdirent", h.name, "not a directory", false)}
			}
			if h.pos > 0 {
				if n > 0 {
					return Tuple{Slice{}, e.ioEOF()}
				}
				return Tuple{Slice{}, Iface{}}
			}
			h.pos = 1
			ents := e.vlist(h.dir)
			o := e.newObj(len(ents), "dir entries")
			for i, en := range ents {
				if kind == 0 {
					o.cells[i] = en.name
				} else {
					o.cells[i] = e.vinfo(en.name, en.dir, en.size)
				}
			}
			return Tuple{Slice{o: o, len: len(ents), cap: len(ents)}, Iface{}}
		}
	}
	reg("(*os.File).Readdirnames", readdir(0))
	reg("(*os.File).Readdir", readdir(1))
	reg("(*os.File).ReadDir", readdir(2))
	reg("os.Mkdir", func(e *Exec, args []Value, fn *ssa.Function) Value {
		p := e.vpath(args[0])
		e.vRecord(p)
		if !p.Conc() {
			e.unsupported("Mkdir with symbolic path")
		}
		if e.vfind(p) != nil || e.vdirExists(p) {
			return e.vfsErrExist("mkdir", p)
		}
		if !e.vdirExists(e.vparent(p)) {
			return e.vfsErr("mkdir", p, "no such file or directory", true)
		}
		crash := e.vMutating()
		if crash && e.choice(0, 1) == 0 {
			e.vCrash("Mkdir (before)")
		}
		if e.vFailNow() {
			return e.vIOErr("mkdir", p)
		}
		e.fs().dirs = append(e.fs().dirs, p.s)
		if crash {
			e.vCrash("Mkdir (after)")
		}
		return Iface{}
	})
	exists := func(e *Exec, args []Value, fn *ssa.Function) Value {
		p := e.vpath(args[0])
		e.vRecord(p)
		if e.vfind(p) == nil && !e.vdirExists(p) {
			return e.vfsErr("chmod", p, "no such file or directory", true)
		}
		return Iface{}
	}
	reg("os.Chmod", exists)
	reg("os.Chtimes", exists)
	reg("os.Truncate", func(e *Exec, args []Value, fn *ssa.Function) Value {
		p := e.vpath(args[0])
		e.vRecord(p)
		f := e.vfind(p)
		if f == nil {
			return e.vfsErr("truncate", p, "no such file or directory", true)
		}
		n := e.concInt(args[1], "Truncate size")
		crash := e.vMutating()
		if crash && e.choice(0, 1) == 0 {
			e.vCrash("Truncate (before)")
		}
		nd := append([]*Term(nil), f.data...)
		for len(nd) < n {
			nd = append(nd, e.tc.Const(8, 0))
		}
		f.data = nd[:n]
		if crash {
			e.vCrash("Truncate (after)")
		}
		return Iface{}
	})
	reg("os.Link", func(e *Exec, args []Value, fn *ssa.Function) Value {
		from, to := e.vpath(args[0]), e.vpath(args[1])
		e.vRecord(from)
		e.vRecord(to)
		f := e.vfind(from)
		if f == nil {
			return e.vfsErr("link", from, "no such file or directory", true)
		}
		if e.vfind(to) != nil || e.vdirExists(to) {
			return e.vfsErrExist("link", to)
		}
		if !e.vdirExists(e.vparent(to)) {
			return e.vfsErr("link", to, "no such file or directory", true)
		}
		crash := e.vMutating()
		if crash && e.choice(0, 1) == 0 {
			e.vCrash("Link (before)")
		}
		if e.vFailNow() {
			return e.vIOErr("link", to)
		}
		// the two names share the content as of now (later writes through one
		// name are not reflected in the other: stated limit of the model)
		e.fs().files = append(e.fs().files, &vfile{path: to, data: append([]*Term(nil), f.data...)})
		if crash {
			e.vCrash("Link (after)")
		}
		return Iface{}
	})
}
