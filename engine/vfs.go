package main

// Virtual file system (DESIGN §2.6 / C10-C12): an in-engine model of the os /
// io/ioutil calls the mailbox uses.  Contract written into the model:
// directory entries exist from creation on, WriteFile = create/truncate then
// write a prefix (crash may stop after any prefix), Rename is atomic.

import (
	"go/types"
	"path"
	"sort"

	"golang.org/x/tools/go/ssa"
)

type vfile struct {
	path Str
	data []*Term
}

type vfs struct {
	files   []*vfile
	dirs    []string
	ops     int // mutating operations performed
	crashAt int // 1-based index of the mutating operation to interrupt (0 = never)
	failAt  int // 1-based index of the mutating operation that fails with an I/O error (0 = never)
	paths   []Str
	handles map[*Obj]*vhandle
	tmpN    int
}

type vhandle struct {
	f        *vfile
	pos      int
	name     Str
	dir      string // non-empty: a directory handle
	writable bool
	app      bool
}

func (e *Exec) fs() *vfs {
	if e.vfsState == nil {
		e.vfsState = &vfs{handles: map[*Obj]*vhandle{}}
	}
	return e.vfsState
}

func (e *Exec) vfsErr(op string, p Str, msg string, notExist bool) Iface {
	t := e.modelType("VFSError")
	o := e.allocZero(t, "VFSError")
	set := func(name string, v Value) {
		fp, ft := e.fieldPtr(Ptr{o: o}, t, name)
		e.store(fp, ft, v)
	}
	set("Op", Str{s: op})
	set("Path", p)
	set("Msg", Str{s: msg})
	set("NotExist", e.tc.Bool(notExist))
	return Iface{t: types.NewPointer(t), v: Ptr{o: o}}
}

// clean a path string; symbolic paths are kept as they are (they must already
// be the result of path.Join / path.Clean in the code under test)
func (e *Exec) vpath(v Value) Str {
	s := v.(Str)
	if s.Conc() {
		return Str{s: path.Clean(s.s)}
	}
	return s
}

func (e *Exec) vfind(p Str) *vfile {
	fs := e.fs()
	for _, f := range fs.files {
		eq := e.strEqual(f.path, p)
		if eq == e.tc.True {
			return f
		}
		if eq == e.tc.False {
			continue
		}
		if e.branch(eq) {
			return f
		}
	}
	return nil
}

func (e *Exec) vdirExists(p Str) bool {
	for _, d := range e.fs().dirs {
		eq := e.strEqual(Str{s: d}, p)
		if eq == e.tc.True {
			return true
		}
		if eq != e.tc.False && e.branch(eq) {
			return true
		}
	}
	return false
}

// parent directory of a path (lexical; for symbolic paths the last '/' position is forked over)
func (e *Exec) vparent(p Str) Str {
	if p.Conc() {
		return Str{s: path.Dir(p.s)}
	}
	for i := p.Len() - 1; i >= 0; i-- {
		c := p.At(e.tc, i)
		if e.branch(e.tc.Cmp(OpEq, c, e.tc.Const(8, '/'))) {
			if i == 0 {
				return Str{s: "/"}
			}
			return p.Sub(0, i)
		}
	}
	return Str{s: "."}
}

// crash point bookkeeping for a mutating operation; returns true if the
// operation must be interrupted
func (e *Exec) vMutating() bool {
	fs := e.fs()
	fs.ops++
	return fs.crashAt > 0 && fs.ops == fs.crashAt
}

// fault injection: the current mutating operation (vMutating was just called)
// fails with an I/O error instead of being carried out
func (e *Exec) vFailNow() bool {
	fs := e.fs()
	return fs.failAt > 0 && fs.ops == fs.failAt
}

func (e *Exec) vIOErr(op string, p Str) Iface { return e.vfsErr(op, p, "input/output error", false) }

func (e *Exec) vCrash(op string) {
	t := e.modelType("VFSCrash")
	a := e.zero(t).(Agg)
	a[0] = Str{s: op}
	e.goPanicValue(Iface{t: t, v: a})
}

func (e *Exec) vRecord(p Str) { e.fs().paths = append(e.fs().paths, p) }

func init() {
	reg("os.MkdirAll", func(e *Exec, args []Value, fn *ssa.Function) Value {
		p := e.vpath(args[0])
		e.vRecord(p)
		if !p.Conc() {
			e.unsupported("MkdirAll with symbolic path")
		}
		fs := e.fs()
		for d := p.s; d != "/" && d != "."; d = path.Dir(d) {
			found := false
			for _, x := range fs.dirs {
				if x == d {
					found = true
				}
			}
			if !found {
				fs.dirs = append(fs.dirs, d)
			}
		}
		return Iface{}
	})
	writeFile := func(e *Exec, args []Value, fn *ssa.Function) Value {
		p := e.vpath(args[0])
		e.vRecord(p)
		data := e.sliceBytes(args[1].(Slice))
		if !e.vdirExists(e.vparent(p)) {
			return e.vfsErr("open", p, "no such file or directory", true)
		}
		crash := e.vMutating()
		if crash {
			// before the call: nothing happened
			if e.choice(0, 1) == 0 {
				e.vCrash("WriteFile (before)")
			}
		}
		fail := e.vFailNow()
		if fail && e.choice(0, 1) == 0 {
			return e.vIOErr("open", p) // nothing was created
		}
		f := e.vfind(p)
		if f == nil {
			f = &vfile{path: p}
			e.fs().files = append(e.fs().files, f)
		}
		if fail {
			// created/truncated, a prefix written, then the error (disk full)
			j := int(e.choice(0, int64(len(data))))
			f.data = append([]*Term(nil), data[:j]...)
			return e.vIOErr("write", p)
		}
		if crash {
			// created/truncated, then a prefix of j bytes was written
			j := int(e.choice(0, int64(len(data))))
			f.data = append([]*Term(nil), data[:j]...)
			e.vCrash("WriteFile (after a prefix)")
		}
		f.data = append([]*Term(nil), data...)
		return Iface{}
	}
	reg("os.WriteFile", writeFile)
	reg("io/ioutil.WriteFile", writeFile)
	reg("os.Rename", func(e *Exec, args []Value, fn *ssa.Function) Value {
		from, to := e.vpath(args[0]), e.vpath(args[1])
		e.vRecord(from)
		e.vRecord(to)
		crash := e.vMutating()
		if crash && e.choice(0, 1) == 0 {
			e.vCrash("Rename (before)")
		}
		if e.vFailNow() {
			return e.vIOErr("rename", from)
		}
		f := e.vfind(from)
		if f == nil {
			return e.vfsErr("rename", from, "no such file or directory", true)
		}
		if !e.vdirExists(e.vparent(to)) {
			return e.vfsErr("rename", to, "no such file or directory", true)
		}
		if old := e.vfind(to); old != nil && old != f {
			e.vRemove(old)
		}
		f.path = to
		if crash {
			e.vCrash("Rename (after)")
		}
		return Iface{}
	})
	reg("os.Remove", func(e *Exec, args []Value, fn *ssa.Function) Value {
		p := e.vpath(args[0])
		e.vRecord(p)
		f := e.vfind(p)
		if f == nil {
			return e.vfsErr("remove", p, "no such file or directory", true)
		}
		crash := e.vMutating()
		if crash && e.choice(0, 1) == 0 {
			e.vCrash("Remove (before)")
		}
		if e.vFailNow() {
			return e.vIOErr("remove", p)
		}
		e.vRemove(f)
		if crash {
			e.vCrash("Remove (after)")
		}
		return Iface{}
	})
	reg("(*os.File).Read", func(e *Exec, args []Value, fn *ssa.Function) Value {
		p := args[0].(Ptr)
		e.nilCheck(p, "File.Read")
		h := e.fs().handles[p.o]
		if h == nil {
			e.unsupported("Read on a file that was not opened through the model")
		}
		if h.dir != "" {
			return Tuple{e.tc.Const(64, 0), e.vfsErr("read", h.name, "is a directory", false)}
		}
		buf := args[1].(Slice)
		if h.pos >= len(h.f.data) {
			if buf.len == 0 {
				return Tuple{e.tc.Const(64, 0), Iface{}}
			}
			eof := e.load(Ptr{o: e.globalObj(e.prog.ssa.ImportedPackage("io").Var("EOF"))}, e.prog.ssa.ImportedPackage("io").Var("EOF").Type().(*types.Pointer).Elem())
			return Tuple{e.tc.Const(64, 0), eof}
		}
		n := min(buf.len, len(h.f.data)-h.pos)
		for i := 0; i < n; i++ {
			e.storeCell(buf.o, buf.off+i, h.f.data[h.pos+i])
		}
		h.pos += n
		return Tuple{e.tc.Const(64, uint64(n)), Iface{}}
	})
	reg("(*os.File).Close", func(e *Exec, args []Value, fn *ssa.Function) Value { return Iface{} })
	reg("os.IsNotExist", func(e *Exec, args []Value, fn *ssa.Function) Value {
		err := args[0].(Iface)
		if err.t == nil {
			return e.tc.False
		}
		if pt, ok := err.t.(*types.Pointer); ok && types.Identical(pt.Elem(), e.modelType("VFSError")) {
			fp, ft := e.fieldPtr(err.v.(Ptr), e.modelType("VFSError"), "NotExist")
			return e.load(fp, ft)
		}
		return e.tc.False
	})
	readDir := func(e *Exec, args []Value, fn *ssa.Function) Value {
		p := e.vpath(args[0])
		e.vRecord(p)
		if !p.Conc() {
			e.unsupported("ReadDir with symbolic path")
		}
		res := fn.Signature.Results().At(0).Type().Underlying().(*types.Slice)
		if !e.vdirExists(p) {
			return Tuple{Slice{}, e.vfsErr("open", p, "no such file or directory", true)}
		}
		type ent struct {
			name Str
			dir  bool
			size int
		}
		var ents []ent
		fs := e.fs()
		for _, d := range fs.dirs {
			if path.Dir(d) == p.s && d != p.s {
				ents = append(ents, ent{Str{s: path.Base(d)}, true, 0})
			}
		}
		for _, f := range fs.files {
			if f.path.Conc() {
				if path.Dir(f.path.s) == p.s {
					ents = append(ents, ent{Str{s: path.Base(f.path.s)}, false, len(f.data)})
				}
				continue
			}
			// symbolic file path: is it directly inside p?
			par := e.vparent(f.path)
			if e.branch(e.strEqual(par, p)) {
				ents = append(ents, ent{f.path.Sub(par.Len()+1, f.path.Len()), false, len(f.data)})
			}
		}
		sort.SliceStable(ents, func(i, j int) bool {
			if ents[i].name.Conc() && ents[j].name.Conc() {
				return ents[i].name.s < ents[j].name.s
			}
			return false
		})
		it := e.modelType("VFileInfo")
		o := e.newObj(len(ents), "[]FileInfo")
		for i, en := range ents {
			a := e.zero(it).(Agg)
			a[0], a[1], a[2] = en.name, e.tc.Bool(en.dir), e.tc.Const(64, uint64(en.size))
			o.cells[i] = Iface{t: it, v: a}
		}
		_ = res
		return Tuple{Slice{o: o, len: len(ents), cap: len(ents)}, Iface{}}
	}
	reg("io/ioutil.ReadDir", readDir)
	reg("os.MkdirTemp", func(e *Exec, args []Value, fn *ssa.Function) Value {
		fs := e.fs()
		fs.tmpN++
		d := "/vfs/tmp" + string(rune('0'+fs.tmpN))
		fs.dirs = append(fs.dirs, "/vfs", d)
		return Tuple{Str{s: d}, Iface{}}
	})
	reg("os.RemoveAll", func(e *Exec, args []Value, fn *ssa.Function) Value { return Iface{} })
}

func (e *Exec) vRemove(f *vfile) {
	fs := e.fs()
	out := fs.files[:0:0]
	for _, x := range fs.files {
		if x != f {
			out = append(out, x)
		}
	}
	fs.files = out
}
