package main

// selftest: every rewrite of the term layer is a bit-vector identity.  For a
// family of argument shapes the simplified term built by the constructors is
// compared by the solver with the unsimplified node (raw mk): "raw != simp"
// must be unsat.  Run by setup_cmd; a failure aborts setup.

import (
	"fmt"
	"os"
	"path/filepath"
)

func selftestRewrites() error {
	tc := NewTermCtx()
	s := NewSolver(Z3New, 20000)
	defer s.Close()
	checks, failed := 0, 0
	for _, w := range []int{8, 16, 64} {
		x, y := tc.Var(fmt.Sprintf("x%d", w), BV(w)), tc.Var(fmt.Sprintf("y%d", w), BV(w))
		b := tc.Var("b", SBool)
		n8 := tc.Var("n8", BV(8))
		shapes := []*Term{
			x, y, tc.Const(w, 0), tc.Const(w, 1), tc.Const(w, 3), tc.Const(w, 16), tc.Const(w, mask(w)), tc.Const(w, 255&mask(w)),
			tc.ZExt(n8, w), tc.Ite(b, tc.Const(w, 5), tc.Const(w, 9)), tc.mk(OpXor, BV(w), 0, "", x, y), tc.mk(OpAdd, BV(w), 0, "", x, tc.Const(w, 7)),
			tc.mk(OpLShr, BV(w), 0, "", x, tc.Const(w, 3)), tc.mk(OpAnd, BV(w), 0, "", x, tc.Const(w, 0x3f)),
		}
		if w == 16 {
			shapes = append(shapes, tc.mk(OpZExt, BV(16), 0, "", tc.Extract(x, 7, 0)),
				tc.mk(OpShl, BV(16), 0, "", tc.mk(OpZExt, BV(16), 0, "", tc.Extract(x, 15, 8)), tc.Const(16, 8)))
		}
		binops := []Op{OpAdd, OpSub, OpMul, OpUDiv, OpURem, OpSDiv, OpSRem, OpAnd, OpOr, OpXor, OpShl, OpLShr, OpAShr}
		cmps := []Op{OpEq, OpUlt, OpUle, OpSlt, OpSle}
		for _, a := range shapes {
			for _, c := range shapes {
				for _, op := range binops {
					if (op == OpUDiv || op == OpURem || op == OpSDiv || op == OpSRem) && !(c.IsConst() && c.C != 0) {
						continue // division by zero is excluded by a run-time obligation before the term is built
					}
					simp := tc.Bin(op, a, c)
					raw := tc.mk(op, BV(w), 0, "", a, c)
					if simp == raw {
						continue
					}
					checks++
					if r, _ := s.Check(nil, tc.mk(OpBNot, SBool, 0, "", tc.mk(OpEq, SBool, 0, "", raw, simp)), nil, "selftest"); r != "unsat" {
						failed++
						fmt.Fprintf(os.Stderr, "rewrite check failed (%s): op %d width %d: %s vs %s\n", r, op, w, raw.body(), simp.body())
					}
				}
				for _, op := range cmps {
					simp := tc.Cmp(op, a, c)
					raw := tc.mk(op, SBool, 0, "", a, c)
					if simp == raw {
						continue
					}
					checks++
					if r, _ := s.Check(nil, tc.mk(OpBNot, SBool, 0, "", tc.mk(OpEq, SBool, 0, "", raw, simp)), nil, "selftest"); r != "unsat" {
						failed++
						fmt.Fprintf(os.Stderr, "rewrite check failed (%s): cmp %d width %d\n", r, op, w)
					}
				}
			}
			// extract / extensions
			for _, hl := range [][2]int{{7, 0}, {w - 1, w - 8}, {w/2 + 3, w / 2}, {3, 1}} {
				if hl[0] >= w || hl[1] < 0 || hl[0] < hl[1] {
					continue
				}
				simp := tc.Extract(a, hl[0], hl[1])
				raw := tc.mk(OpExtract, BV(hl[0]-hl[1]+1), uint64(hl[0])<<8|uint64(hl[1]), "", a)
				if simp != raw {
					checks++
					if r, _ := s.Check(nil, tc.mk(OpBNot, SBool, 0, "", tc.mk(OpEq, SBool, 0, "", raw, simp)), nil, "selftest"); r != "unsat" {
						failed++
						fmt.Fprintf(os.Stderr, "extract rewrite failed (%s): [%d:%d] of width %d\n", r, hl[0], hl[1], w)
					}
				}
			}
		}
	}
	fmt.Printf("selftest: %d rewrite identities checked by z3-new, %d failed\n", checks, failed)
	if failed > 0 {
		return fmt.Errorf("%d rewrite identities do not hold", failed)
	}
	// the harness directory must be loadable
	if _, err := os.Stat(filepath.Join("/verif", "harness", "index.json")); err != nil {
		return err
	}
	return nil
}
